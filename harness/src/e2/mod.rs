//! Engine E2: loom exploration of OS-thread interleavings around the message-ID table.
//!
//! ldap3's ID table is an `Arc<Mutex<(i32, HashSet<i32>)>>` shared by every handle and the
//! driver. With `--cfg ldap3_verif` the mutex is `ldap3::verif::sync::Mutex`, which acquires a
//! harness-supplied shadow lock around every `lock()`; here the shadow is built from loom
//! primitives, so every acquisition — including ones a code change adds or splits — is a
//! scheduling point that loom permutes exhaustively (up to the preemption bound).

use crate::e1::memio::MemIo;
use crate::vcore::msg::{self, Msg, Op, Res};
use ldap3::verif::sync::{set_shadow_factory, Shadow};
use ldap3::{Ldap, LdapConnAsync};
use std::future::Future;
use std::pin::Pin;
use std::sync::atomic::{AtomicU64, Ordering};
use std::sync::{Arc, Mutex};
use std::task::{Context, Poll};

struct LoomShadow {
    held: loom::sync::Mutex<bool>,
    cv: loom::sync::Condvar,
}

impl Shadow for LoomShadow {
    fn lock(&self) {
        let mut g = self.held.lock().unwrap();
        while *g {
            g = self.cv.wait(g).unwrap();
        }
        *g = true;
    }
    fn unlock(&self) {
        *self.held.lock().unwrap() = false;
        self.cv.notify_one();
    }
}

type BoxFut = Pin<Box<dyn Future<Output = ()> + Send>>;

fn poll_once(f: &mut BoxFut) -> bool {
    let w = futures::task::noop_waker();
    let mut cx = Context::from_waker(&w);
    matches!(f.as_mut().poll(&mut cx), Poll::Ready(()))
}

fn op_future(ldap: Ldap, marker: String) -> BoxFut {
    Box::pin(async move {
        let mut l = ldap;
        let _ = l.simple_bind(&marker, "pw").await;
    })
}

#[derive(Clone, Copy, Debug, PartialEq, Eq)]
pub enum Shape {
    /// two threads allocate concurrently
    TwoAlloc,
    /// three threads allocate concurrently
    ThreeAlloc,
    /// one thread allocates twice while another allocates once
    TwoPlusOne,
    /// an allocation races with the driver releasing an answered operation's ID
    AllocVsRelease,
    /// the same at the wrap-around point with the low IDs taken
    AllocVsReleaseAtWrap,
}

pub struct LoomResult {
    pub executions: u64,
    pub distinct_outcomes: usize,
    pub violations: Vec<String>,
    pub sample: String,
}

fn rng_zero(_n: u32) -> u32 {
    0
}

pub fn explore(shape: Shape, preemption_bound: Option<usize>) -> LoomResult {
    let execs = Arc::new(AtomicU64::new(0));
    let outcomes: Arc<Mutex<std::collections::BTreeSet<String>>> = Arc::new(Mutex::new(Default::default()));
    let viol: Arc<Mutex<Vec<String>>> = Arc::new(Mutex::new(vec![]));
    let (e2, o2, v2) = (execs.clone(), outcomes.clone(), viol.clone());
    let mut b = loom::model::Builder::new();
    b.preemption_bound = preemption_bound;
    b.max_branches = 100_000;
    b.check(move || {
        e2.fetch_add(1, Ordering::Relaxed);
        tokio::macros::support::verif_set_rng_hook(Some(rng_zero));
        set_shadow_factory(Some(Box::new(|| Arc::new(LoomShadow { held: loom::sync::Mutex::new(false), cv: loom::sync::Condvar::new() }) as Arc<dyn Shadow>)));
        let (mem, io) = MemIo::new();
        let (conn, ldap) = LdapConnAsync::verif_pair(Box::new(mem));
        set_shadow_factory(None);
        let mut driver_slot: Option<BoxFut> = Some(Box::pin(async move {
            let _ = conn.drive().await;
        }));
        let mut expected_in_use: Vec<i32> = vec![];
        let mut pre: Vec<BoxFut> = vec![];
        // ---- set-up on the main thread
        match shape {
            Shape::AllocVsRelease | Shape::AllocVsReleaseAtWrap => {
                if shape == Shape::AllocVsReleaseAtWrap {
                    ldap.verif_set_msgmap(i32::MAX - 1, &[1, 2]);
                    expected_in_use.extend([1, 2]);
                }
                let mut f = op_future(ldap.clone(), "first".into());
                poll_once(&mut f);
                pre.push(f);
                poll_once(driver_slot.as_mut().unwrap()); // request written, result map filled
                let first_id = ldap.verif_msgmap().0;
                // the server's answer is ready to be read
                let resp = Msg { id: first_id as i64, op: Op::BindResp(Res::new(0, "", "first"), None), controls: None }.encode();
                io.lock().unwrap().deliver(&resp);
            }
            _ => {}
        }
        // ---- concurrent phase
        let mut handles = vec![];
        let spawn_alloc = |n: usize, tag: &'static str, ldap: &Ldap| {
            let l = ldap.clone();
            loom::thread::spawn(move || {
                tokio::macros::support::verif_set_rng_hook(Some(rng_zero));
                let mut futs = vec![];
                for k in 0..n {
                    let mut f = op_future(l.clone(), format!("{}{}", tag, k));
                    poll_once(&mut f);
                    futs.push(f);
                }
                futs
            })
        };
        match shape {
            Shape::TwoAlloc => {
                handles.push(spawn_alloc(1, "a", &ldap));
                handles.push(spawn_alloc(1, "b", &ldap));
            }
            Shape::ThreeAlloc => {
                handles.push(spawn_alloc(1, "a", &ldap));
                handles.push(spawn_alloc(1, "b", &ldap));
                handles.push(spawn_alloc(1, "c", &ldap));
            }
            Shape::TwoPlusOne => {
                handles.push(spawn_alloc(2, "a", &ldap));
                handles.push(spawn_alloc(1, "b", &ldap));
            }
            Shape::AllocVsRelease | Shape::AllocVsReleaseAtWrap => {
                handles.push(spawn_alloc(1, "a", &ldap));
            }
        }
        let driver_thread = if matches!(shape, Shape::AllocVsRelease | Shape::AllocVsReleaseAtWrap) {
            let mut driver = driver_slot.take().unwrap();
            Some(loom::thread::spawn(move || {
                tokio::macros::support::verif_set_rng_hook(Some(rng_zero));
                poll_once(&mut driver);
                driver
            }))
        } else {
            None
        };
        let mut keep: Vec<BoxFut> = vec![];
        for h in handles {
            keep.extend(h.join().unwrap());
        }
        let mut driver = match driver_thread {
            Some(h) => h.join().unwrap(),
            None => driver_slot.take().unwrap(),
        };
        // ---- drain on the main thread and judge
        poll_once(&mut driver);
        poll_once(&mut driver);
        let out = io.lock().unwrap().out.clone();
        let mut ids: Vec<(i64, String)> = vec![];
        match msg::split_frames(&out) {
            Ok((frames, _)) => {
                for f in frames {
                    match Msg::from_tlv(&f, &mut vec![]) {
                        Ok(m) => {
                            let name = match &m.op {
                                Op::BindReq { name, .. } => String::from_utf8_lossy(name).into_owned(),
                                _ => "?".into(),
                            };
                            ids.push((m.id, name));
                        }
                        Err(e) => v2.lock().unwrap().push(format!("{:?}: undecodable request: {}", shape, e)),
                    }
                }
            }
            Err(e) => v2.lock().unwrap().push(format!("{:?}: wire is not BER: {}", shape, e)),
        }
        let (last, in_use) = ldap.verif_msgmap();
        // operations still outstanding: everything written except the answered "first"
        let mut outstanding: Vec<i64> = ids.iter().filter(|(_, n)| n != "first").map(|(i, _)| *i).collect();
        let all: Vec<i64> = ids.iter().map(|(i, _)| *i).collect();
        let mut sorted = outstanding.clone();
        sorted.sort();
        sorted.dedup();
        if sorted.len() != outstanding.len() {
            v2.lock().unwrap().push(format!("{:?}: two outstanding operations share a message ID: {:?}", shape, ids));
        }
        if all.iter().any(|i| *i < 1 || *i > i32::MAX as i64) {
            v2.lock().unwrap().push(format!("{:?}: message ID out of range: {:?}", shape, ids));
        }
        let first_answered = matches!(shape, Shape::AllocVsRelease | Shape::AllocVsReleaseAtWrap);
        let mut want: Vec<i32> = expected_in_use.clone();
        want.extend(outstanding.iter().map(|i| *i as i32));
        want.sort();
        want.dedup();
        if in_use != want {
            v2.lock().unwrap().push(format!("{:?}: in-use set {:?} != IDs of outstanding operations {:?} (wire {:?}, first answered: {})", shape, in_use, want, ids, first_answered));
        }
        if shape == Shape::AllocVsReleaseAtWrap {
            // taken: 1, 2 and i32::MAX (first); the new operation must get 3
            if outstanding != vec![3] {
                v2.lock().unwrap().push(format!("{:?}: allocation at the wrap-around gave {:?}, expected [3] (1, 2 and 2^31-1 were in use)", shape, outstanding));
            }
        }
        outstanding.sort();
        o2.lock().unwrap().insert(format!("wire {:?} last {} in_use {:?}", ids, last, in_use));
        drop(keep);
        drop(pre);
        drop(driver);
    });
    let sample = outcomes.lock().unwrap().iter().next().cloned().unwrap_or_default();
    let mut v = viol.lock().unwrap().clone();
    v.sort();
    v.dedup();
    let n = outcomes.lock().unwrap().len();
    LoomResult { executions: execs.load(Ordering::Relaxed), distinct_outcomes: n, violations: v, sample }
}
