//! Independent BER reference: strict definite-length decoder, DER-style minimal encoder that
//! can also emit any chosen non-minimal length form. Written from X.690; shares no code with lber.

#[derive(Clone, Debug, PartialEq, Eq, Hash, PartialOrd, Ord)]
pub enum Body {
    Prim(Vec<u8>),
    Cons(Vec<Tlv>),
}

#[derive(Clone, Debug, PartialEq, Eq, Hash, PartialOrd, Ord)]
pub struct Tlv {
    /// 0 universal, 1 application, 2 context, 3 private
    pub class: u8,
    pub tag: u32,
    pub body: Body,
}

#[derive(Clone, Debug, PartialEq, Eq)]
pub enum DecErr {
    /// more bytes are needed to complete the outermost element
    Incomplete,
    Malformed(&'static str),
}

pub const UNI: u8 = 0;
pub const APP: u8 = 1;
pub const CTX: u8 = 2;

impl Tlv {
    pub fn prim(class: u8, tag: u32, v: impl Into<Vec<u8>>) -> Tlv {
        Tlv { class, tag, body: Body::Prim(v.into()) }
    }
    pub fn cons(class: u8, tag: u32, v: Vec<Tlv>) -> Tlv {
        Tlv { class, tag, body: Body::Cons(v) }
    }
    pub fn octets(v: impl Into<Vec<u8>>) -> Tlv {
        Tlv::prim(UNI, 4, v)
    }
    pub fn seq(v: Vec<Tlv>) -> Tlv {
        Tlv::cons(UNI, 16, v)
    }
    pub fn set(v: Vec<Tlv>) -> Tlv {
        Tlv::cons(UNI, 17, v)
    }
    pub fn int(v: i64) -> Tlv {
        Tlv::prim(UNI, 2, int_content(v))
    }
    pub fn enumerated(v: i64) -> Tlv {
        Tlv::prim(UNI, 10, int_content(v))
    }
    pub fn boolean(b: bool) -> Tlv {
        Tlv::prim(UNI, 1, vec![if b { 0xff } else { 0 }])
    }
    pub fn is(&self, class: u8, tag: u32) -> bool {
        self.class == class && self.tag == tag
    }
    pub fn as_prim(&self) -> Option<&[u8]> {
        match &self.body {
            Body::Prim(v) => Some(v),
            _ => None,
        }
    }
    pub fn as_cons(&self) -> Option<&[Tlv]> {
        match &self.body {
            Body::Cons(v) => Some(v),
            _ => None,
        }
    }
    /// number of nodes in the tree
    pub fn nodes(&self) -> usize {
        match &self.body {
            Body::Prim(_) => 1,
            Body::Cons(v) => 1 + v.iter().map(|t| t.nodes()).sum::<usize>(),
        }
    }
}

/// Shortest two's-complement content octets of `v` (X.690 8.3).
pub fn int_content(v: i64) -> Vec<u8> {
    let b = v.to_be_bytes();
    let mut start = 0;
    while start < 7 {
        let cur = b[start];
        let next_hi = b[start + 1] & 0x80;
        if (cur == 0x00 && next_hi == 0) || (cur == 0xff && next_hi != 0) {
            start += 1;
        } else {
            break;
        }
    }
    b[start..].to_vec()
}

/// Value of INTEGER content octets (two's complement); None if empty or longer than 16 octets.
pub fn int_value(c: &[u8]) -> Option<i128> {
    if c.is_empty() || c.len() > 16 {
        return None;
    }
    let mut v: i128 = if c[0] & 0x80 != 0 { -1 } else { 0 };
    for &b in c {
        v = (v << 8) | b as i128;
    }
    Some(v)
}

fn dec_header(b: &[u8]) -> Result<(u8, bool, u32, usize, usize), DecErr> {
    // returns class, constructed, tag, content length, header length
    if b.is_empty() {
        return Err(DecErr::Incomplete);
    }
    let first = b[0];
    let class = first >> 6;
    let cons = first & 0x20 != 0;
    let mut pos = 1;
    let mut tag = (first & 0x1f) as u32;
    if tag == 0x1f {
        tag = 0;
        loop {
            if pos >= b.len() {
                return Err(DecErr::Incomplete);
            }
            let o = b[pos];
            pos += 1;
            if tag > (u32::MAX >> 7) {
                return Err(DecErr::Malformed("tag number too large"));
            }
            tag = (tag << 7) | (o & 0x7f) as u32;
            if o & 0x80 == 0 {
                break;
            }
        }
    }
    if pos >= b.len() {
        return Err(DecErr::Incomplete);
    }
    let l0 = b[pos];
    pos += 1;
    let len: usize;
    if l0 < 0x80 {
        len = l0 as usize;
    } else if l0 == 0x80 {
        return Err(DecErr::Malformed("indefinite length"));
    } else if l0 == 0xff {
        return Err(DecErr::Malformed("reserved length octet"));
    } else {
        let n = (l0 & 0x7f) as usize;
        if pos + n > b.len() {
            return Err(DecErr::Incomplete);
        }
        let mut l: u128 = 0;
        for &o in &b[pos..pos + n] {
            l = (l << 8) | o as u128;
            if l > (usize::MAX as u128) {
                return Err(DecErr::Malformed("length overflow"));
            }
        }
        pos += n;
        len = l as usize;
    }
    Ok((class, cons, tag, len, pos))
}

/// Outer header only: (header length, announced content length) if the header is complete.
pub fn outer_header(b: &[u8]) -> Result<(usize, usize), DecErr> {
    let (_, _, _, len, hl) = dec_header(b)?;
    Ok((hl, len))
}

/// Decode one element from the front of `b`. Inner elements must fit exactly in their parent.
pub fn decode_one(b: &[u8]) -> Result<(Tlv, usize), DecErr> {
    decode_depth(b, 0)
}

fn decode_depth(b: &[u8], depth: usize) -> Result<(Tlv, usize), DecErr> {
    if depth > 100_000 {
        return Err(DecErr::Malformed("too deep"));
    }
    let (class, cons, tag, len, hl) = dec_header(b)?;
    if b.len() - hl < len {
        return Err(DecErr::Incomplete);
    }
    let content = &b[hl..hl + len];
    let body = if cons {
        let mut v = Vec::new();
        let mut rest = content;
        while !rest.is_empty() {
            match decode_depth(rest, depth + 1) {
                Ok((t, n)) => {
                    v.push(t);
                    rest = &rest[n..];
                }
                // an inner element running past its parent can never be completed
                Err(DecErr::Incomplete) => return Err(DecErr::Malformed("inner element overruns parent")),
                Err(e) => return Err(e),
            }
        }
        Body::Cons(v)
    } else {
        Body::Prim(content.to_vec())
    };
    Ok((Tlv { class, tag, body }, hl + len))
}

/// Decode exactly one element spanning all of `b`.
pub fn decode_all(b: &[u8]) -> Result<Tlv, DecErr> {
    let (t, n) = decode_one(b)?;
    if n != b.len() {
        return Err(DecErr::Malformed("trailing bytes"));
    }
    Ok(t)
}

/// How a length is written.
#[derive(Clone, Copy, Debug, PartialEq, Eq)]
pub enum LenForm {
    Minimal,
    /// long form with exactly this many length octets (1..=8); falls back to the smallest
    /// sufficient count if the value does not fit
    Long(u8),
}

pub fn enc_ident(out: &mut Vec<u8>, class: u8, cons: bool, tag: u32) {
    let first = (class << 6) | if cons { 0x20 } else { 0 };
    if tag < 31 {
        out.push(first | tag as u8);
    } else {
        out.push(first | 0x1f);
        let mut groups = vec![];
        let mut t = tag;
        loop {
            groups.push((t & 0x7f) as u8);
            t >>= 7;
            if t == 0 {
                break;
            }
        }
        for (i, g) in groups.iter().rev().enumerate() {
            out.push(if i + 1 == groups.len() { *g } else { *g | 0x80 });
        }
    }
}

pub fn min_len_octets(len: usize) -> u8 {
    let mut n = 1u8;
    let mut l = len >> 8;
    while l > 0 {
        n += 1;
        l >>= 8;
    }
    n
}

pub fn enc_len(out: &mut Vec<u8>, len: usize, form: LenForm) {
    match form {
        LenForm::Minimal if len < 128 => out.push(len as u8),
        LenForm::Minimal => {
            let n = min_len_octets(len);
            out.push(0x80 | n);
            out.extend_from_slice(&(len as u64).to_be_bytes()[8 - n as usize..]);
        }
        LenForm::Long(n) => {
            // up to 16 length octets (leading zero octets are legal BER)
            let n = n.max(min_len_octets(len)).min(16);
            out.push(0x80 | n);
            out.extend_from_slice(&(len as u128).to_be_bytes()[16 - n as usize..]);
        }
    }
}

/// Minimal (DER-length) encoding.
pub fn encode(t: &Tlv) -> Vec<u8> {
    let mut out = Vec::new();
    let mut k = 0usize;
    encode_with(t, &mut |_| LenForm::Minimal, &mut k, &mut out);
    out
}

/// Encode choosing the length form of the k-th node (pre-order index) with `f`.
pub fn encode_forms(t: &Tlv, f: &mut dyn FnMut(usize) -> LenForm) -> Vec<u8> {
    let mut out = Vec::new();
    let mut k = 0usize;
    encode_with(t, f, &mut k, &mut out);
    out
}

fn encode_with(t: &Tlv, f: &mut dyn FnMut(usize) -> LenForm, k: &mut usize, out: &mut Vec<u8>) {
    let form = f(*k);
    *k += 1;
    match &t.body {
        Body::Prim(v) => {
            enc_ident(out, t.class, false, t.tag);
            enc_len(out, v.len(), form);
            out.extend_from_slice(v);
        }
        Body::Cons(c) => {
            let mut inner = Vec::new();
            for s in c {
                encode_with(s, f, k, &mut inner);
            }
            enc_ident(out, t.class, true, t.tag);
            enc_len(out, inner.len(), form);
            out.extend_from_slice(&inner);
        }
    }
}

pub fn hex(b: &[u8]) -> String {
    let mut s = String::with_capacity(b.len() * 2);
    for x in b {
        s.push_str(&format!("{:02x}", x));
    }
    s
}

pub fn unhex(s: &str) -> Vec<u8> {
    let s: Vec<u8> = s.bytes().filter(|c| c.is_ascii_hexdigit()).collect();
    s.chunks(2)
        .map(|p| u8::from_str_radix(std::str::from_utf8(p).unwrap(), 16).unwrap())
        .collect()
}

/// Convert an lber StructureTag into the reference tree (for comparisons only).
pub fn from_lber(t: &lber::structure::StructureTag) -> Tlv {
    use lber::structure::PL;
    Tlv {
        class: t.class as u8,
        tag: t.id as u32,
        body: match &t.payload {
            PL::P(v) => Body::Prim(v.clone()),
            PL::C(v) => Body::Cons(v.iter().map(from_lber).collect()),
        },
    }
}

/// Convert the reference tree into an lber StructureTag.
pub fn to_lber(t: &Tlv) -> lber::structure::StructureTag {
    use lber::common::TagClass;
    use lber::structure::{StructureTag, PL};
    StructureTag {
        class: TagClass::from_u8(t.class).unwrap(),
        id: t.tag as u64,
        payload: match &t.body {
            Body::Prim(v) => PL::P(v.clone()),
            Body::Cons(v) => PL::C(v.iter().map(to_lber).collect()),
        },
    }
}

#[cfg(test)]
mod tests {
    use super::*;
    #[test]
    fn ints() {
        assert_eq!(int_content(0), vec![0]);
        assert_eq!(int_content(127), vec![0x7f]);
        assert_eq!(int_content(128), vec![0, 0x80]);
        assert_eq!(int_content(-128), vec![0x80]);
        assert_eq!(int_content(-129), vec![0xff, 0x7f]);
        assert_eq!(int_content(i64::MIN).len(), 8);
        for v in [-70000i64, -129, -128, -1, 0, 1, 255, 256, 65535, i64::MAX, i64::MIN] {
            assert_eq!(int_value(&int_content(v)), Some(v as i128));
        }
    }
    #[test]
    fn roundtrip() {
        let t = Tlv::seq(vec![Tlv::int(5), Tlv::octets(vec![1u8; 200]), Tlv::cons(CTX, 3, vec![])]);
        let e = encode(&t);
        assert_eq!(decode_all(&e).unwrap(), t);
        let e2 = encode_forms(&t, &mut |_| LenForm::Long(4));
        assert_eq!(decode_all(&e2).unwrap(), t);
        assert_eq!(decode_one(&e[..e.len() - 1]), Err(DecErr::Incomplete));
    }
}
