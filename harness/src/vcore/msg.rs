//! Reference model of RFC 4511 LDAPMessage <-> BER. Independent of ldap3's encoders/decoders.

use super::ber::{int_value, Tlv, APP, CTX, UNI};
use super::filter::Filter;

pub type Bytes = Vec<u8>;

#[derive(Clone, Debug, PartialEq, Eq, Hash, PartialOrd, Ord)]
pub struct Ctl {
    pub oid: Bytes,
    /// None = criticality field absent on the wire
    pub crit: Option<bool>,
    pub val: Option<Bytes>,
}

#[derive(Clone, Debug, PartialEq, Eq, Hash, PartialOrd, Ord)]
pub struct Res {
    pub rc: i64,
    pub matched: Bytes,
    pub text: Bytes,
    pub referral: Option<Vec<Bytes>>,
}

impl Res {
    pub fn new(rc: i64, matched: &str, text: &str) -> Res {
        Res { rc, matched: matched.as_bytes().to_vec(), text: text.as_bytes().to_vec(), referral: None }
    }
}

#[derive(Clone, Debug, PartialEq, Eq, Hash, PartialOrd, Ord)]
pub enum Auth {
    Simple(Bytes),
    Sasl { mech: Bytes, creds: Option<Bytes> },
}

#[derive(Clone, Debug, PartialEq, Eq, Hash, PartialOrd, Ord)]
pub enum Op {
    BindReq { version: i64, name: Bytes, auth: Auth },
    UnbindReq,
    SearchReq {
        base: Bytes,
        scope: i64,
        deref: i64,
        sizelimit: i64,
        timelimit: i64,
        typesonly: bool,
        filter: Filter,
        attrs: Vec<Bytes>,
    },
    /// (operation, attribute, values as sorted multiset)
    ModifyReq { dn: Bytes, changes: Vec<(i64, Bytes, Vec<Bytes>)> },
    AddReq { dn: Bytes, attrs: Vec<(Bytes, Vec<Bytes>)> },
    DelReq(Bytes),
    ModDnReq { dn: Bytes, rdn: Bytes, delold: bool, newsup: Option<Bytes> },
    CompareReq { dn: Bytes, attr: Bytes, val: Bytes },
    AbandonReq(i64),
    ExtReq { name: Bytes, val: Option<Bytes> },
    BindResp(Res, Option<Bytes>),
    SearchEntry { dn: Bytes, attrs: Vec<(Bytes, Vec<Bytes>)> },
    SearchRef(Vec<Bytes>),
    SearchDone(Res),
    ModifyResp(Res),
    AddResp(Res),
    DelResp(Res),
    ModDnResp(Res),
    CompareResp(Res),
    ExtResp(Res, Option<Bytes>, Option<Bytes>),
    Intermediate { name: Option<Bytes>, val: Option<Bytes> },
}

#[derive(Clone, Debug, PartialEq, Eq, Hash, PartialOrd, Ord)]
pub struct Msg {
    pub id: i64,
    pub op: Op,
    pub controls: Option<Vec<Ctl>>,
}

fn prim<'a>(t: &'a Tlv, class: u8, tag: u32, what: &str) -> Result<&'a [u8], String> {
    if !t.is(class, tag) {
        return Err(format!("{}: expected [{} {}] got [{} {}]", what, class, tag, t.class, t.tag));
    }
    t.as_prim().ok_or_else(|| format!("{}: constructed", what))
}

fn cons<'a>(t: &'a Tlv, class: u8, tag: u32, what: &str) -> Result<&'a [Tlv], String> {
    if !t.is(class, tag) {
        return Err(format!("{}: expected [{} {}] got [{} {}]", what, class, tag, t.class, t.tag));
    }
    t.as_cons().ok_or_else(|| format!("{}: primitive", what))
}

fn int(t: &Tlv, tag: u32, what: &str) -> Result<i64, String> {
    let c = prim(t, UNI, tag, what)?;
    let v = int_value(c).ok_or_else(|| format!("{}: bad integer", what))?;
    // shortest form is a DER rule, not BER; we record but do not reject non-minimal here
    i64::try_from(v).map_err(|_| format!("{}: out of range", what))
}

fn int_minimal(t: &Tlv) -> bool {
    match t.as_prim() {
        Some(c) if !c.is_empty() => {
            c.len() == 1 || !((c[0] == 0 && c[1] & 0x80 == 0) || (c[0] == 0xff && c[1] & 0x80 != 0))
        }
        _ => false,
    }
}

fn boolean(t: &Tlv, class: u8, tag: u32, what: &str) -> Result<bool, String> {
    let c = prim(t, class, tag, what)?;
    if c.len() != 1 {
        return Err(format!("{}: boolean length {}", what, c.len()));
    }
    Ok(c[0] != 0)
}

fn attr_list(ts: &[Tlv], sort_vals: bool) -> Result<Vec<(Bytes, Vec<Bytes>)>, String> {
    let mut out = vec![];
    for a in ts {
        let p = cons(a, UNI, 16, "attribute")?;
        if p.len() != 2 {
            return Err("attribute arity".into());
        }
        let name = prim(&p[0], UNI, 4, "attr type")?.to_vec();
        let vs = cons(&p[1], UNI, 17, "attr vals")?;
        let mut vals = vec![];
        for v in vs {
            vals.push(prim(v, UNI, 4, "attr value")?.to_vec());
        }
        if sort_vals {
            vals.sort();
        }
        out.push((name, vals));
    }
    Ok(out)
}

fn parse_res(c: &[Tlv]) -> Result<(Res, &[Tlv]), String> {
    if c.len() < 3 {
        return Err("LDAPResult too short".into());
    }
    let rc = int(&c[0], 10, "resultCode")?;
    let matched = prim(&c[1], UNI, 4, "matchedDN")?.to_vec();
    let text = prim(&c[2], UNI, 4, "diagnosticMessage")?.to_vec();
    let mut rest = &c[3..];
    let mut referral = None;
    if let Some(r) = rest.first() {
        if r.is(CTX, 3) {
            let us = r.as_cons().ok_or("referral primitive")?;
            let mut v = vec![];
            for u in us {
                v.push(prim(u, UNI, 4, "referral uri")?.to_vec());
            }
            referral = Some(v);
            rest = &rest[1..];
        }
    }
    Ok((Res { rc, matched, text, referral }, rest))
}

fn res_tlvs(r: &Res) -> Vec<Tlv> {
    let mut v = vec![Tlv::enumerated(r.rc), Tlv::octets(r.matched.clone()), Tlv::octets(r.text.clone())];
    if let Some(refs) = &r.referral {
        v.push(Tlv::cons(CTX, 3, refs.iter().map(|u| Tlv::octets(u.clone())).collect()));
    }
    v
}

pub fn parse_controls(t: &Tlv) -> Result<Vec<Ctl>, String> {
    let cs = cons(t, CTX, 0, "controls")?;
    let mut out = vec![];
    for c in cs {
        let p = cons(c, UNI, 16, "control")?;
        if p.is_empty() || p.len() > 3 {
            return Err("control arity".into());
        }
        let oid = prim(&p[0], UNI, 4, "controlType")?.to_vec();
        let mut crit = None;
        let mut val = None;
        let mut i = 1;
        if i < p.len() && p[i].is(UNI, 1) {
            crit = Some(boolean(&p[i], UNI, 1, "criticality")?);
            i += 1;
        }
        if i < p.len() {
            val = Some(prim(&p[i], UNI, 4, "controlValue")?.to_vec());
            i += 1;
        }
        if i != p.len() {
            return Err("control trailing".into());
        }
        out.push(Ctl { oid, crit, val });
    }
    Ok(out)
}

pub fn controls_tlv(cs: &[Ctl]) -> Tlv {
    Tlv::cons(
        CTX,
        0,
        cs.iter()
            .map(|c| {
                let mut v = vec![Tlv::octets(c.oid.clone())];
                if let Some(b) = c.crit {
                    v.push(Tlv::boolean(b));
                }
                if let Some(val) = &c.val {
                    v.push(Tlv::octets(val.clone()));
                }
                Tlv::seq(v)
            })
            .collect(),
    )
}

impl Msg {
    /// Strict RFC 4511 decoding of a whole LDAPMessage. `notes` receives non-fatal remarks
    /// (e.g. non-minimal INTEGER) that request-side oracles treat as errors.
    pub fn from_tlv(t: &Tlv, notes: &mut Vec<String>) -> Result<Msg, String> {
        let m = cons(t, UNI, 16, "LDAPMessage")?;
        if m.len() < 2 || m.len() > 3 {
            return Err(format!("LDAPMessage arity {}", m.len()));
        }
        let id = int(&m[0], 2, "messageID")?;
        if !int_minimal(&m[0]) {
            notes.push("messageID not minimal".into());
        }
        let op = parse_op(&m[1], notes)?;
        let controls = if m.len() == 3 { Some(parse_controls(&m[2])?) } else { None };
        Ok(Msg { id, op, controls })
    }

    pub fn to_tlv(&self) -> Tlv {
        let mut v = vec![Tlv::int(self.id), op_tlv(&self.op)];
        if let Some(c) = &self.controls {
            v.push(controls_tlv(c));
        }
        Tlv::seq(v)
    }

    pub fn encode(&self) -> Vec<u8> {
        super::ber::encode(&self.to_tlv())
    }
}

fn check_min(t: &Tlv, what: &str, notes: &mut Vec<String>) {
    if !int_minimal(t) {
        notes.push(format!("{} not minimal", what));
    }
}

fn check_bool(t: &Tlv, what: &str, notes: &mut Vec<String>) {
    if let Some(c) = t.as_prim() {
        if c.len() == 1 && c[0] != 0 && c[0] != 0xff {
            notes.push(format!("{} TRUE not 0xFF", what));
        }
    }
}

pub fn parse_op(t: &Tlv, notes: &mut Vec<String>) -> Result<Op, String> {
    if t.class != APP {
        return Err(format!("protocolOp class {}", t.class));
    }
    let res_of = |t: &Tlv| -> Result<Res, String> {
        let c = t.as_cons().ok_or("response primitive")?;
        let (r, rest) = parse_res(c)?;
        if !rest.is_empty() {
            return Err("LDAPResult trailing".into());
        }
        Ok(r)
    };
    Ok(match t.tag {
        0 => {
            let c = t.as_cons().ok_or("bind primitive")?;
            if c.len() != 3 {
                return Err("bind arity".into());
            }
            let version = int(&c[0], 2, "version")?;
            check_min(&c[0], "version", notes);
            let name = prim(&c[1], UNI, 4, "bind name")?.to_vec();
            let auth = if c[2].is(CTX, 0) {
                Auth::Simple(c[2].as_prim().ok_or("simple constructed")?.to_vec())
            } else if c[2].is(CTX, 3) {
                let s = c[2].as_cons().ok_or("sasl primitive")?;
                if s.is_empty() || s.len() > 2 {
                    return Err("sasl arity".into());
                }
                Auth::Sasl {
                    mech: prim(&s[0], UNI, 4, "mechanism")?.to_vec(),
                    creds: if s.len() == 2 { Some(prim(&s[1], UNI, 4, "credentials")?.to_vec()) } else { None },
                }
            } else {
                return Err("bind auth choice".into());
            };
            Op::BindReq { version, name, auth }
        }
        2 => {
            let p = t.as_prim().ok_or("unbind constructed")?;
            if !p.is_empty() {
                return Err("unbind not empty".into());
            }
            Op::UnbindReq
        }
        3 => {
            let c = t.as_cons().ok_or("search primitive")?;
            if c.len() != 8 {
                return Err(format!("search arity {}", c.len()));
            }
            for (i, w) in [(1, "scope"), (2, "deref"), (3, "sizeLimit"), (4, "timeLimit")] {
                check_min(&c[i], w, notes);
            }
            check_bool(&c[5], "typesOnly", notes);
            let attrs_t = cons(&c[7], UNI, 16, "attributes")?;
            let mut attrs = vec![];
            for a in attrs_t {
                attrs.push(prim(a, UNI, 4, "attribute selector")?.to_vec());
            }
            Op::SearchReq {
                base: prim(&c[0], UNI, 4, "baseObject")?.to_vec(),
                scope: int(&c[1], 10, "scope")?,
                deref: int(&c[2], 10, "derefAliases")?,
                sizelimit: int(&c[3], 2, "sizeLimit")?,
                timelimit: int(&c[4], 2, "timeLimit")?,
                typesonly: boolean(&c[5], UNI, 1, "typesOnly")?,
                filter: Filter::from_tlv(&c[6])?,
                attrs,
            }
        }
        6 => {
            let c = t.as_cons().ok_or("modify primitive")?;
            if c.len() != 2 {
                return Err("modify arity".into());
            }
            let dn = prim(&c[0], UNI, 4, "modify object")?.to_vec();
            let chs = cons(&c[1], UNI, 16, "changes")?;
            let mut changes = vec![];
            for ch in chs {
                let p = cons(ch, UNI, 16, "change")?;
                if p.len() != 2 {
                    return Err("change arity".into());
                }
                let op = int(&p[0], 10, "change op")?;
                check_min(&p[0], "change op", notes);
                let mut a = attr_list(std::slice::from_ref(&p[1]), true)?;
                let (name, vals) = a.pop().unwrap();
                changes.push((op, name, vals));
            }
            Op::ModifyReq { dn, changes }
        }
        8 => {
            let c = t.as_cons().ok_or("add primitive")?;
            if c.len() != 2 {
                return Err("add arity".into());
            }
            Op::AddReq {
                dn: prim(&c[0], UNI, 4, "add entry")?.to_vec(),
                attrs: attr_list(cons(&c[1], UNI, 16, "add attributes")?, true)?,
            }
        }
        10 => Op::DelReq(t.as_prim().ok_or("delete constructed")?.to_vec()),
        12 => {
            let c = t.as_cons().ok_or("moddn primitive")?;
            if c.len() < 3 || c.len() > 4 {
                return Err("moddn arity".into());
            }
            check_bool(&c[2], "deleteoldrdn", notes);
            Op::ModDnReq {
                dn: prim(&c[0], UNI, 4, "moddn entry")?.to_vec(),
                rdn: prim(&c[1], UNI, 4, "newrdn")?.to_vec(),
                delold: boolean(&c[2], UNI, 1, "deleteoldrdn")?,
                newsup: if c.len() == 4 { Some(prim(&c[3], CTX, 0, "newSuperior")?.to_vec()) } else { None },
            }
        }
        14 => {
            let c = t.as_cons().ok_or("compare primitive")?;
            if c.len() != 2 {
                return Err("compare arity".into());
            }
            let ava = cons(&c[1], UNI, 16, "ava")?;
            if ava.len() != 2 {
                return Err("ava arity".into());
            }
            Op::CompareReq {
                dn: prim(&c[0], UNI, 4, "compare entry")?.to_vec(),
                attr: prim(&ava[0], UNI, 4, "attributeDesc")?.to_vec(),
                val: prim(&ava[1], UNI, 4, "assertionValue")?.to_vec(),
            }
        }
        16 => {
            let p = t.as_prim().ok_or("abandon constructed")?;
            if !int_minimal(t) {
                notes.push("abandon id not minimal".into());
            }
            Op::AbandonReq(i64::try_from(int_value(p).ok_or("abandon int")?).map_err(|_| "abandon range")?)
        }
        23 => {
            let c = t.as_cons().ok_or("extended primitive")?;
            if c.is_empty() || c.len() > 2 {
                return Err("extended arity".into());
            }
            Op::ExtReq {
                name: prim(&c[0], CTX, 0, "requestName")?.to_vec(),
                val: if c.len() == 2 { Some(prim(&c[1], CTX, 1, "requestValue")?.to_vec()) } else { None },
            }
        }
        1 => {
            let c = t.as_cons().ok_or("bindresp primitive")?;
            let (r, rest) = parse_res(c)?;
            let creds = match rest {
                [] => None,
                [s] => Some(prim(s, CTX, 7, "serverSaslCreds")?.to_vec()),
                _ => return Err("bindresp trailing".into()),
            };
            Op::BindResp(r, creds)
        }
        4 => {
            let c = t.as_cons().ok_or("entry primitive")?;
            if c.len() != 2 {
                return Err("entry arity".into());
            }
            Op::SearchEntry {
                dn: prim(&c[0], UNI, 4, "objectName")?.to_vec(),
                attrs: attr_list(cons(&c[1], UNI, 16, "entry attributes")?, false)?,
            }
        }
        19 => {
            let c = t.as_cons().ok_or("ref primitive")?;
            let mut v = vec![];
            for u in c {
                v.push(prim(u, UNI, 4, "ref uri")?.to_vec());
            }
            Op::SearchRef(v)
        }
        5 => Op::SearchDone(res_of(t)?),
        7 => Op::ModifyResp(res_of(t)?),
        9 => Op::AddResp(res_of(t)?),
        11 => Op::DelResp(res_of(t)?),
        13 => Op::ModDnResp(res_of(t)?),
        15 => Op::CompareResp(res_of(t)?),
        24 => {
            let c = t.as_cons().ok_or("extresp primitive")?;
            let (r, rest) = parse_res(c)?;
            let (mut name, mut val) = (None, None);
            for x in rest {
                if x.is(CTX, 10) && name.is_none() && val.is_none() {
                    name = Some(x.as_prim().ok_or("responseName constructed")?.to_vec());
                } else if x.is(CTX, 11) && val.is_none() {
                    val = Some(x.as_prim().ok_or("responseValue constructed")?.to_vec());
                } else {
                    return Err("extresp trailing".into());
                }
            }
            Op::ExtResp(r, name, val)
        }
        25 => {
            let c = t.as_cons().ok_or("intermediate primitive")?;
            let (mut name, mut val) = (None, None);
            for x in c {
                if x.is(CTX, 0) && name.is_none() && val.is_none() {
                    name = Some(x.as_prim().ok_or("im name")?.to_vec());
                } else if x.is(CTX, 1) && val.is_none() {
                    val = Some(x.as_prim().ok_or("im val")?.to_vec());
                } else {
                    return Err("intermediate shape".into());
                }
            }
            Op::Intermediate { name, val }
        }
        n => return Err(format!("unknown protocolOp {}", n)),
    })
}

fn attrs_tlv(attrs: &[(Bytes, Vec<Bytes>)]) -> Tlv {
    Tlv::seq(
        attrs
            .iter()
            .map(|(n, vs)| Tlv::seq(vec![Tlv::octets(n.clone()), Tlv::set(vs.iter().map(|v| Tlv::octets(v.clone())).collect())]))
            .collect(),
    )
}

pub fn op_tlv(op: &Op) -> Tlv {
    match op {
        Op::BindReq { version, name, auth } => Tlv::cons(
            APP,
            0,
            vec![
                Tlv::int(*version),
                Tlv::octets(name.clone()),
                match auth {
                    Auth::Simple(p) => Tlv::prim(CTX, 0, p.clone()),
                    Auth::Sasl { mech, creds } => {
                        let mut v = vec![Tlv::octets(mech.clone())];
                        if let Some(c) = creds {
                            v.push(Tlv::octets(c.clone()));
                        }
                        Tlv::cons(CTX, 3, v)
                    }
                },
            ],
        ),
        Op::UnbindReq => Tlv::prim(APP, 2, vec![]),
        Op::SearchReq { base, scope, deref, sizelimit, timelimit, typesonly, filter, attrs } => Tlv::cons(
            APP,
            3,
            vec![
                Tlv::octets(base.clone()),
                Tlv::enumerated(*scope),
                Tlv::enumerated(*deref),
                Tlv::int(*sizelimit),
                Tlv::int(*timelimit),
                Tlv::boolean(*typesonly),
                filter.to_tlv(),
                Tlv::seq(attrs.iter().map(|a| Tlv::octets(a.clone())).collect()),
            ],
        ),
        Op::ModifyReq { dn, changes } => Tlv::cons(
            APP,
            6,
            vec![
                Tlv::octets(dn.clone()),
                Tlv::seq(
                    changes
                        .iter()
                        .map(|(op, n, vs)| {
                            Tlv::seq(vec![
                                Tlv::enumerated(*op),
                                Tlv::seq(vec![Tlv::octets(n.clone()), Tlv::set(vs.iter().map(|v| Tlv::octets(v.clone())).collect())]),
                            ])
                        })
                        .collect(),
                ),
            ],
        ),
        Op::AddReq { dn, attrs } => Tlv::cons(APP, 8, vec![Tlv::octets(dn.clone()), attrs_tlv(attrs)]),
        Op::DelReq(dn) => Tlv::prim(APP, 10, dn.clone()),
        Op::ModDnReq { dn, rdn, delold, newsup } => {
            let mut v = vec![Tlv::octets(dn.clone()), Tlv::octets(rdn.clone()), Tlv::boolean(*delold)];
            if let Some(s) = newsup {
                v.push(Tlv::prim(CTX, 0, s.clone()));
            }
            Tlv::cons(APP, 12, v)
        }
        Op::CompareReq { dn, attr, val } => Tlv::cons(
            APP,
            14,
            vec![Tlv::octets(dn.clone()), Tlv::seq(vec![Tlv::octets(attr.clone()), Tlv::octets(val.clone())])],
        ),
        Op::AbandonReq(id) => Tlv::prim(APP, 16, super::ber::int_content(*id)),
        Op::ExtReq { name, val } => {
            let mut v = vec![Tlv::prim(CTX, 0, name.clone())];
            if let Some(x) = val {
                v.push(Tlv::prim(CTX, 1, x.clone()));
            }
            Tlv::cons(APP, 23, v)
        }
        Op::BindResp(r, creds) => {
            let mut v = res_tlvs(r);
            if let Some(c) = creds {
                v.push(Tlv::prim(CTX, 7, c.clone()));
            }
            Tlv::cons(APP, 1, v)
        }
        Op::SearchEntry { dn, attrs } => Tlv::cons(APP, 4, vec![Tlv::octets(dn.clone()), attrs_tlv(attrs)]),
        Op::SearchRef(us) => Tlv::cons(APP, 19, us.iter().map(|u| Tlv::octets(u.clone())).collect()),
        Op::SearchDone(r) => Tlv::cons(APP, 5, res_tlvs(r)),
        Op::ModifyResp(r) => Tlv::cons(APP, 7, res_tlvs(r)),
        Op::AddResp(r) => Tlv::cons(APP, 9, res_tlvs(r)),
        Op::DelResp(r) => Tlv::cons(APP, 11, res_tlvs(r)),
        Op::ModDnResp(r) => Tlv::cons(APP, 13, res_tlvs(r)),
        Op::CompareResp(r) => Tlv::cons(APP, 15, res_tlvs(r)),
        Op::ExtResp(r, name, val) => {
            let mut v = res_tlvs(r);
            if let Some(n) = name {
                v.push(Tlv::prim(CTX, 10, n.clone()));
            }
            if let Some(x) = val {
                v.push(Tlv::prim(CTX, 11, x.clone()));
            }
            Tlv::cons(APP, 24, v)
        }
        Op::Intermediate { name, val } => {
            let mut v = vec![];
            if let Some(n) = name {
                v.push(Tlv::prim(CTX, 0, n.clone()));
            }
            if let Some(x) = val {
                v.push(Tlv::prim(CTX, 1, x.clone()));
            }
            Tlv::cons(APP, 25, v)
        }
    }
}

/// Split a byte stream into complete top-level elements; returns (frames, bytes consumed).
pub fn split_frames(b: &[u8]) -> Result<(Vec<Tlv>, usize), String> {
    use super::ber::{decode_one, DecErr};
    let mut out = vec![];
    let mut pos = 0;
    while pos < b.len() {
        match decode_one(&b[pos..]) {
            Ok((t, n)) => {
                out.push(t);
                pos += n;
            }
            Err(DecErr::Incomplete) => break,
            Err(DecErr::Malformed(m)) => return Err(m.to_string()),
        }
    }
    Ok((out, pos))
}
