//! Reference model of RFC 4511 Filter / RFC 4515 string form. Independent of ldap3::filter.

use super::ber::{Body, Tlv, CTX, UNI};

#[derive(Clone, Debug, PartialEq, Eq, Hash, PartialOrd, Ord)]
pub enum Filter {
    And(Vec<Filter>),
    Or(Vec<Filter>),
    Not(Box<Filter>),
    Eq(Vec<u8>, Vec<u8>),
    Substr { attr: Vec<u8>, initial: Option<Vec<u8>>, any: Vec<Vec<u8>>, fin: Option<Vec<u8>> },
    Ge(Vec<u8>, Vec<u8>),
    Le(Vec<u8>, Vec<u8>),
    Present(Vec<u8>),
    Approx(Vec<u8>, Vec<u8>),
    Ext { rule: Option<Vec<u8>>, attr: Option<Vec<u8>>, val: Vec<u8>, dn: bool },
}

fn ctx_prim(tag: u32, v: &[u8]) -> Tlv {
    Tlv::prim(CTX, tag, v.to_vec())
}

impl Filter {
    /// RFC 4511 4.5.1 encoding (implicit context tags).
    pub fn to_tlv(&self) -> Tlv {
        match self {
            Filter::And(v) => Tlv::cons(CTX, 0, v.iter().map(|f| f.to_tlv()).collect()),
            Filter::Or(v) => Tlv::cons(CTX, 1, v.iter().map(|f| f.to_tlv()).collect()),
            Filter::Not(f) => Tlv::cons(CTX, 2, vec![f.to_tlv()]),
            Filter::Eq(a, v) => Tlv::cons(CTX, 3, vec![Tlv::octets(a.clone()), Tlv::octets(v.clone())]),
            Filter::Substr { attr, initial, any, fin } => {
                let mut subs = vec![];
                if let Some(i) = initial {
                    subs.push(ctx_prim(0, i));
                }
                for a in any {
                    subs.push(ctx_prim(1, a));
                }
                if let Some(f) = fin {
                    subs.push(ctx_prim(2, f));
                }
                Tlv::cons(CTX, 4, vec![Tlv::octets(attr.clone()), Tlv::seq(subs)])
            }
            Filter::Ge(a, v) => Tlv::cons(CTX, 5, vec![Tlv::octets(a.clone()), Tlv::octets(v.clone())]),
            Filter::Le(a, v) => Tlv::cons(CTX, 6, vec![Tlv::octets(a.clone()), Tlv::octets(v.clone())]),
            Filter::Present(a) => ctx_prim(7, a),
            Filter::Approx(a, v) => Tlv::cons(CTX, 8, vec![Tlv::octets(a.clone()), Tlv::octets(v.clone())]),
            Filter::Ext { rule, attr, val, dn } => {
                let mut v = vec![];
                if let Some(r) = rule {
                    v.push(ctx_prim(1, r));
                }
                if let Some(a) = attr {
                    v.push(ctx_prim(2, a));
                }
                v.push(ctx_prim(3, val));
                if *dn {
                    v.push(ctx_prim(4, &[0xff]));
                }
                Tlv::cons(CTX, 9, v)
            }
        }
    }

    /// Strict decoder for the BER filter.
    pub fn from_tlv(t: &Tlv) -> Result<Filter, String> {
        if t.class != CTX {
            return Err(format!("filter: class {}", t.class));
        }
        fn ava(t: &Tlv) -> Result<(Vec<u8>, Vec<u8>), String> {
            let c = t.as_cons().ok_or("ava not constructed")?;
            if c.len() != 2 || !c[0].is(UNI, 4) || !c[1].is(UNI, 4) {
                return Err("ava shape".into());
            }
            Ok((
                c[0].as_prim().ok_or("ava attr")?.to_vec(),
                c[1].as_prim().ok_or("ava val")?.to_vec(),
            ))
        }
        match t.tag {
            0 | 1 => {
                let c = t.as_cons().ok_or("and/or primitive")?;
                let v: Result<Vec<_>, _> = c.iter().map(Filter::from_tlv).collect();
                Ok(if t.tag == 0 { Filter::And(v?) } else { Filter::Or(v?) })
            }
            2 => {
                let c = t.as_cons().ok_or("not primitive")?;
                if c.len() != 1 {
                    return Err("not arity".into());
                }
                Ok(Filter::Not(Box::new(Filter::from_tlv(&c[0])?)))
            }
            3 => ava(t).map(|(a, v)| Filter::Eq(a, v)),
            5 => ava(t).map(|(a, v)| Filter::Ge(a, v)),
            6 => ava(t).map(|(a, v)| Filter::Le(a, v)),
            8 => ava(t).map(|(a, v)| Filter::Approx(a, v)),
            7 => Ok(Filter::Present(t.as_prim().ok_or("present constructed")?.to_vec())),
            4 => {
                let c = t.as_cons().ok_or("substr primitive")?;
                if c.len() != 2 || !c[0].is(UNI, 4) || !c[1].is(UNI, 16) {
                    return Err("substr shape".into());
                }
                let attr = c[0].as_prim().ok_or("substr attr")?.to_vec();
                let subs = c[1].as_cons().ok_or("substr seq")?;
                if subs.is_empty() {
                    return Err("substr empty".into());
                }
                let (mut initial, mut any, mut fin) = (None, vec![], None);
                for (i, s) in subs.iter().enumerate() {
                    if s.class != CTX {
                        return Err("substr elem class".into());
                    }
                    let v = s.as_prim().ok_or("substr elem constructed")?.to_vec();
                    match s.tag {
                        0 if i == 0 => initial = Some(v),
                        1 if fin.is_none() => any.push(v),
                        2 if i + 1 == subs.len() => fin = Some(v),
                        _ => return Err(format!("substr elem {} at {}", s.tag, i)),
                    }
                }
                Ok(Filter::Substr { attr, initial, any, fin })
            }
            9 => {
                let c = t.as_cons().ok_or("ext primitive")?;
                let (mut rule, mut attr, mut val, mut dn) = (None, None, None, None);
                let mut last = 0;
                for s in c {
                    if s.class != CTX || s.tag <= last {
                        return Err("ext order".into());
                    }
                    last = s.tag;
                    let v = s.as_prim().ok_or("ext elem constructed")?.to_vec();
                    match s.tag {
                        1 => rule = Some(v),
                        2 => attr = Some(v),
                        3 => val = Some(v),
                        4 => {
                            if v.len() != 1 {
                                return Err("ext dn bool".into());
                            }
                            dn = Some(v[0] != 0)
                        }
                        _ => return Err("ext tag".into()),
                    }
                }
                Ok(Filter::Ext { rule, attr, val: val.ok_or("ext no value")?, dn: dn.unwrap_or(false) })
            }
            n => Err(format!("filter tag {}", n)),
        }
    }

    /// Canonical RFC 4515 string: every byte outside the safe set is written as \xx (lower-case).
    pub fn print(&self) -> String {
        fn val(v: &[u8]) -> String {
            let mut s = String::new();
            for &b in v {
                if b == 0 || b == b'(' || b == b')' || b == b'*' || b == b'\\' || b >= 0x80 {
                    s.push_str(&format!("\\{:02x}", b));
                } else {
                    s.push(b as char);
                }
            }
            s
        }
        fn a(v: &[u8]) -> String {
            String::from_utf8_lossy(v).into_owned()
        }
        match self {
            Filter::And(v) => format!("(&{})", v.iter().map(|f| f.print()).collect::<String>()),
            Filter::Or(v) => format!("(|{})", v.iter().map(|f| f.print()).collect::<String>()),
            Filter::Not(f) => format!("(!{})", f.print()),
            Filter::Eq(at, v) => format!("({}={})", a(at), val(v)),
            Filter::Ge(at, v) => format!("({}>={})", a(at), val(v)),
            Filter::Le(at, v) => format!("({}<={})", a(at), val(v)),
            Filter::Approx(at, v) => format!("({}~={})", a(at), val(v)),
            Filter::Present(at) => format!("({}=*)", a(at)),
            Filter::Substr { attr, initial, any, fin } => {
                let mut s = format!("({}=", a(attr));
                if let Some(i) = initial {
                    s.push_str(&val(i));
                }
                s.push('*');
                for x in any {
                    s.push_str(&val(x));
                    s.push('*');
                }
                if let Some(f) = fin {
                    s.push_str(&val(f));
                }
                s.push(')');
                s
            }
            Filter::Ext { rule, attr, val: v, dn } => {
                let mut s = String::from("(");
                if let Some(at) = attr {
                    s.push_str(&a(at));
                }
                if *dn {
                    s.push_str(":dn");
                }
                if let Some(r) = rule {
                    s.push(':');
                    s.push_str(&a(r));
                }
                s.push_str(":=");
                s.push_str(&val(v));
                s.push(')');
                s
            }
        }
    }
}

// ---------------------------------------------------------------------------------------------
// RFC 4515 recogniser (plus the library's documented extensions: a bare item without outer
// parentheses, and empty (&) / (|) as in RFC 4526).

struct P<'a> {
    b: &'a [u8],
    i: usize,
}

fn is_alpha(c: u8) -> bool {
    c.is_ascii_alphabetic()
}
fn is_keychar(c: u8) -> bool {
    c.is_ascii_alphanumeric() || c == b'-'
}

impl<'a> P<'a> {
    fn peek(&self) -> Option<u8> {
        self.b.get(self.i).copied()
    }
    fn eat(&mut self, s: &[u8]) -> bool {
        if self.b[self.i..].starts_with(s) {
            self.i += s.len();
            true
        } else {
            false
        }
    }
    // numericoid = number 1*( DOT number ) in RFC 4512; a single arc is tolerated by `lenient`
    fn numericoid(&mut self, lenient_single_arc: bool) -> Option<Vec<u8>> {
        let start = self.i;
        let mut arcs = 0;
        loop {
            let s = self.i;
            while self.peek().map_or(false, |c| c.is_ascii_digit()) {
                self.i += 1;
            }
            let n = &self.b[s..self.i];
            if n.is_empty() || (n.len() > 1 && n[0] == b'0') {
                self.i = start;
                return None;
            }
            arcs += 1;
            if self.peek() == Some(b'.') && self.b.get(self.i + 1).map_or(false, |c| c.is_ascii_digit()) {
                self.i += 1;
            } else {
                break;
            }
        }
        if arcs < 2 && !lenient_single_arc {
            self.i = start;
            return None;
        }
        Some(self.b[start..self.i].to_vec())
    }
    fn descr(&mut self) -> Option<Vec<u8>> {
        let start = self.i;
        if !self.peek().map_or(false, is_alpha) {
            return None;
        }
        self.i += 1;
        while self.peek().map_or(false, is_keychar) {
            self.i += 1;
        }
        Some(self.b[start..self.i].to_vec())
    }
    fn oid(&mut self, lenient: bool) -> Option<Vec<u8>> {
        if self.peek().map_or(false, |c| c.is_ascii_digit()) {
            self.numericoid(lenient)
        } else {
            self.descr()
        }
    }
    fn attrdesc(&mut self, lenient: bool) -> Option<Vec<u8>> {
        let start = self.i;
        self.oid(lenient)?;
        loop {
            if self.peek() == Some(b';') {
                let s = self.i;
                self.i += 1;
                let o = self.i;
                while self.peek().map_or(false, is_keychar) {
                    self.i += 1;
                }
                if self.i == o {
                    self.i = s;
                    break;
                }
            } else {
                break;
            }
        }
        Some(self.b[start..self.i].to_vec())
    }
    /// assertion value up to (not including) the next unescaped '*', '(' or ')'; None on a
    /// malformed escape or NUL.
    fn value(&mut self) -> Option<Vec<u8>> {
        let mut out = vec![];
        loop {
            match self.peek() {
                None | Some(b'*') | Some(b'(') | Some(b')') => return Some(out),
                Some(0) => return None,
                Some(b'\\') => {
                    let h = self.b.get(self.i + 1..self.i + 3)?;
                    let s = std::str::from_utf8(h).ok()?;
                    if !h.iter().all(|c| c.is_ascii_hexdigit()) {
                        return None;
                    }
                    out.push(u8::from_str_radix(s, 16).ok()?);
                    self.i += 3;
                }
                Some(c) => {
                    out.push(c);
                    self.i += 1;
                }
            }
        }
    }
    fn item(&mut self, lenient: bool) -> Option<Filter> {
        let start = self.i;
        // extensible without attribute: [:dn] :rule := value
        if self.peek() == Some(b':') {
            let dn = self.eat_dn();
            if !self.eat(b":") {
                return None;
            }
            let rule = self.oid(lenient)?;
            if !self.eat(b":=") {
                return None;
            }
            let val = self.value()?;
            return Some(Filter::Ext { rule: Some(rule), attr: None, val, dn });
        }
        let attr = self.attrdesc(lenient)?;
        if self.eat(b">=") {
            return Some(Filter::Ge(attr, self.value()?));
        }
        if self.eat(b"<=") {
            return Some(Filter::Le(attr, self.value()?));
        }
        if self.eat(b"~=") {
            return Some(Filter::Approx(attr, self.value()?));
        }
        if self.peek() == Some(b':') {
            let dn = self.eat_dn();
            let mut rule = None;
            if !self.b[self.i..].starts_with(b":=") {
                if !self.eat(b":") {
                    return None;
                }
                rule = Some(self.oid(lenient)?);
            }
            if !self.eat(b":=") {
                return None;
            }
            let val = self.value()?;
            return Some(Filter::Ext { rule, attr: Some(attr), val, dn });
        }
        if !self.eat(b"=") {
            self.i = start;
            return None;
        }
        let first = self.value()?;
        if self.peek() != Some(b'*') {
            return Some(Filter::Eq(attr, first));
        }
        let mut parts = vec![first];
        while self.peek() == Some(b'*') {
            self.i += 1;
            parts.push(self.value()?);
        }
        // parts: initial, any..., final  (empty initial/final mean absent; empty any is illegal)
        let n = parts.len();
        if n == 2 && parts[0].is_empty() && parts[1].is_empty() {
            return Some(Filter::Present(attr));
        }
        for p in &parts[1..n - 1] {
            if p.is_empty() {
                return None; // adjacent asterisks
            }
        }
        let initial = if parts[0].is_empty() { None } else { Some(parts[0].clone()) };
        let fin = if parts[n - 1].is_empty() { None } else { Some(parts[n - 1].clone()) };
        let any = parts[1..n - 1].to_vec();
        Some(Filter::Substr { attr, initial, any, fin })
    }
    /// ":dn" counts as the dnattrs flag only when followed by ':' (so ":dnx" is a rule name)
    fn eat_dn(&mut self) -> bool {
        if self.b[self.i..].starts_with(b":dn:") {
            self.i += 3;
            true
        } else {
            false
        }
    }
    fn filter(&mut self, lenient: bool, depth: usize) -> Option<Filter> {
        if depth > 200 || !self.eat(b"(") {
            return None;
        }
        let f = match self.peek()? {
            b'&' | b'|' => {
                let and = self.peek() == Some(b'&');
                self.i += 1;
                let mut v = vec![];
                while self.peek() == Some(b'(') {
                    v.push(self.filter(lenient, depth + 1)?);
                }
                if and {
                    Filter::And(v)
                } else {
                    Filter::Or(v)
                }
            }
            b'!' => {
                self.i += 1;
                Filter::Not(Box::new(self.filter(lenient, depth + 1)?))
            }
            _ => self.item(lenient)?,
        };
        if !self.eat(b")") {
            return None;
        }
        Some(f)
    }
}

/// Parse per RFC 4515 + documented extensions. `lenient_oid`: also accept a single-arc numeric OID.
pub fn parse_str(s: &[u8], lenient_oid: bool) -> Option<Filter> {
    let mut p = P { b: s, i: 0 };
    let f = if s.first() == Some(&b'(') { p.filter(lenient_oid, 0)? } else { p.item(lenient_oid)? };
    if p.i != s.len() {
        return None;
    }
    Some(f)
}

/// Normalise escapes in a filter string: every \XX becomes the canonical form produced by
/// `Filter::print` for that byte (raw if safe, lower-case \xx otherwise); raw bytes >= 0x80
/// become \xx. Returns None if an escape is malformed.
pub fn normalise_escapes(s: &[u8]) -> Option<Vec<u8>> {
    let mut out = vec![];
    let mut i = 0;
    while i < s.len() {
        let c = s[i];
        let b = if c == b'\\' {
            let h = s.get(i + 1..i + 3)?;
            if !h.iter().all(|c| c.is_ascii_hexdigit()) {
                return None;
            }
            i += 3;
            Some(u8::from_str_radix(std::str::from_utf8(h).ok()?, 16).ok()?)
        } else {
            i += 1;
            if c >= 0x80 {
                Some(c)
            } else {
                out.push(c);
                None
            }
        };
        if let Some(b) = b {
            if b == 0 || b == b'(' || b == b')' || b == b'*' || b == b'\\' || b >= 0x80 {
                out.extend_from_slice(format!("\\{:02x}", b).as_bytes());
            } else {
                out.push(b);
            }
        }
    }
    Some(out)
}

#[allow(dead_code)]
pub fn is_cons(t: &Tlv) -> bool {
    matches!(t.body, Body::Cons(_))
}
