//! RFC 4514 distinguished-name parser (string -> RDN sequence), written from the RFC.

/// One attribute type and value of an RDN.
#[derive(Clone, Debug, PartialEq, Eq)]
pub struct Ava {
    pub attr: String,
    pub value: Vec<u8>,
}

fn is_special(c: u8) -> bool {
    matches!(c, b'"' | b'+' | b',' | b';' | b'<' | b'>')
}

fn hexval(c: u8) -> Option<u8> {
    (c as char).to_digit(16).map(|d| d as u8)
}

/// Parse `dn` into RDNs (each a list of AVAs). Errors are strings.
pub fn parse_dn(dn: &[u8]) -> Result<Vec<Vec<Ava>>, String> {
    let mut out = vec![];
    if dn.is_empty() {
        return Ok(out);
    }
    let mut i = 0;
    loop {
        let mut rdn = vec![];
        loop {
            // attributeType = descr / numericoid
            let s = i;
            while i < dn.len() && (dn[i].is_ascii_alphanumeric() || dn[i] == b'-' || dn[i] == b'.') {
                i += 1;
            }
            if i == s {
                return Err(format!("empty attribute type at {}", s));
            }
            let attr = String::from_utf8_lossy(&dn[s..i]).into_owned();
            if i >= dn.len() || dn[i] != b'=' {
                return Err(format!("expected '=' at {}", i));
            }
            i += 1;
            // attributeValue = string / hexstring
            let mut value = vec![];
            if i < dn.len() && dn[i] == b'#' {
                i += 1;
                let hs = i;
                while i + 1 < dn.len() && hexval(dn[i]).is_some() && hexval(dn[i + 1]).is_some() {
                    value.push(hexval(dn[i]).unwrap() * 16 + hexval(dn[i + 1]).unwrap());
                    i += 2;
                }
                if i == hs {
                    return Err(format!("empty hexstring at {}", hs));
                }
                return_if_not_sep(dn, i)?;
                // the value is BER; callers comparing with a string value will see a mismatch
                value.insert(0, b'#');
            } else {
                let vs = i;
                let mut last_was_escaped = false;
                let mut first = true;
                while i < dn.len() {
                    let c = dn[i];
                    if c == b',' || c == b'+' {
                        break;
                    }
                    if c == b'\\' {
                        // pair = ESC ( ESC / special / hexpair )
                        let n = *dn.get(i + 1).ok_or("dangling escape")?;
                        if n == b'\\' || is_special(n) || n == b' ' || n == b'#' || n == b'=' {
                            value.push(n);
                            i += 2;
                        } else if let (Some(a), Some(b)) = (hexval(n), dn.get(i + 2).and_then(|x| hexval(*x))) {
                            value.push(a * 16 + b);
                            i += 3;
                        } else {
                            return Err(format!("bad escape at {}", i));
                        }
                        last_was_escaped = true;
                        first = false;
                        continue;
                    }
                    // unescaped character rules
                    if c == 0 {
                        return Err("raw NUL".into());
                    }
                    if is_special(c) {
                        return Err(format!("unescaped special {:?} at {}", c as char, i));
                    }
                    if first && (c == b' ' || c == b'#') {
                        return Err(format!("unescaped leading {:?}", c as char));
                    }
                    value.push(c);
                    last_was_escaped = false;
                    first = false;
                    i += 1;
                }
                if i > vs && !last_was_escaped && dn[i - 1] == b' ' {
                    return Err("unescaped trailing space".into());
                }
                if std::str::from_utf8(&dn[vs..i]).is_err() {
                    return Err("value is not UTF-8".into());
                }
            }
            rdn.push(Ava { attr, value });
            if i < dn.len() && dn[i] == b'+' {
                i += 1;
                continue;
            }
            break;
        }
        out.push(rdn);
        if i >= dn.len() {
            return Ok(out);
        }
        if dn[i] != b',' {
            return Err(format!("expected ',' at {}", i));
        }
        i += 1;
        if i >= dn.len() {
            return Err("trailing comma".into());
        }
    }
}

fn return_if_not_sep(dn: &[u8], i: usize) -> Result<(), String> {
    if i < dn.len() && dn[i] != b',' && dn[i] != b'+' {
        return Err(format!("junk after hexstring at {}", i));
    }
    Ok(())
}

#[cfg(test)]
mod tests {
    use super::*;
    #[test]
    fn rfc_examples() {
        let d = parse_dn(b"UID=jsmith,DC=example,DC=net").unwrap();
        assert_eq!(d.len(), 3);
        let d = parse_dn(b"OU=Sales+CN=J.  Smith,DC=example,DC=net").unwrap();
        assert_eq!(d[0].len(), 2);
        let d = parse_dn(b"CN=James \\\"Jim\\\" Smith\\, III,DC=example,DC=net").unwrap();
        assert_eq!(d[0][0].value, b"James \"Jim\" Smith, III".to_vec());
        let d = parse_dn(b"CN=Before\\0dAfter,DC=example,DC=net").unwrap();
        assert_eq!(d[0][0].value, b"Before\rAfter".to_vec());
        assert!(parse_dn(b"cn=#,dc=x").is_err());
        assert!(parse_dn(b"cn= a,dc=x").is_err());
        assert!(parse_dn(b"cn=a ,dc=x").is_err());
    }
}
