//! RFC 4516 LDAP URL formatter (components -> URL string), written from the RFC.

/// percent-encode everything outside RFC 3986 unreserved plus a few characters that RFC 4516
/// allows literally in the respective component; '?' and (in extension values) ',' must be encoded.
pub fn pct(s: &str, keep: &str) -> String {
    let mut out = String::new();
    for b in s.bytes() {
        let c = b as char;
        if c.is_ascii_alphanumeric() || "-._~".contains(c) || keep.contains(c) {
            out.push(c);
        } else {
            out.push_str(&format!("%{:02X}", b));
        }
    }
    out
}

#[derive(Clone, Debug)]
pub struct UrlParts {
    pub base: String,
    pub attrs: Option<Vec<String>>,
    pub scope: Option<String>,
    pub filter: Option<String>,
    /// (critical, name, value)
    pub exts: Vec<(bool, String, Option<String>)>,
    pub raw_slash: bool,
}

/// Format as ldap://host/dn?attrs?scope?filter?exts; trailing empty fields are dropped unless
/// `keep_trailing` (then all four '?' are written).
pub fn format_url(p: &UrlParts, keep_trailing: bool) -> String {
    let mut fields: Vec<String> = vec![
        p.attrs.as_ref().map(|a| a.iter().map(|x| pct(x, "*+;")).collect::<Vec<_>>().join(",")).unwrap_or_default(),
        p.scope.clone().unwrap_or_default(),
        p.filter.as_ref().map(|f| pct(f, "()=*&|!:,")).unwrap_or_default(),
        p.exts
            .iter()
            .map(|(c, n, v)| {
                let mut s = String::new();
                if *c {
                    s.push('!');
                }
                s.push_str(&pct(n, ""));
                if let Some(v) = v {
                    s.push('=');
                    s.push_str(&pct(v, "="));
                }
                s
            })
            .collect::<Vec<_>>()
            .join(","),
    ];
    if !keep_trailing {
        while fields.last().map_or(false, |f| f.is_empty()) {
            fields.pop();
        }
    }
    // '/' inside the DN is written literally when `raw_slash` is set (RFC 4516 allows it in the dn part)
    let mut url = format!("ldap://host.example/{}", pct(&p.base, if p.raw_slash { "=,+/" } else { "=,+" }));
    for f in &fields {
        url.push('?');
        url.push_str(f);
    }
    url
}
