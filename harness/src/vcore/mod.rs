//! Independent references written from the RFCs; no code shared with ldap3/lber.
pub mod ber;
pub mod dn;
pub mod url;
pub mod filter;
pub mod msg;
