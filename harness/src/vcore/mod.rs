//! Independent references written from the RFCs; no code shared with ldap3/lber.
pub mod ber;
pub mod filter;
pub mod msg;
