//! Shared plumbing: tiers, evidence files, known findings, violation reporting, parallel ranges.

use serde_json::{json, Map, Value};
use std::collections::BTreeMap;
use std::io::Write;
use std::sync::Mutex;
use std::time::Instant;

#[derive(Clone, Copy, Debug, PartialEq, Eq)]
pub enum Tier {
    Quick,
    Thorough,
}

impl Tier {
    pub fn name(self) -> &'static str {
        match self {
            Tier::Quick => "quick",
            Tier::Thorough => "thorough",
        }
    }
    pub fn pick<T>(self, q: T, t: T) -> T {
        match self {
            Tier::Quick => q,
            Tier::Thorough => t,
        }
    }
}

pub const VERIF_DIR: &str = "/verif";

#[derive(Clone, Debug)]
pub struct KnownEntry {
    pub status: String,
    pub property: String,
    pub key: String,
    pub what: String,
}

pub fn load_known() -> Vec<KnownEntry> {
    let p = format!("{}/known-findings.jsonl", VERIF_DIR);
    let mut out = vec![];
    if let Ok(s) = std::fs::read_to_string(&p) {
        for l in s.lines() {
            let l = l.trim();
            if l.is_empty() || l.starts_with('#') {
                continue;
            }
            if let Ok(v) = serde_json::from_str::<Value>(l) {
                out.push(KnownEntry {
                    status: v["status"].as_str().unwrap_or("").to_string(),
                    property: v["property"].as_str().unwrap_or("").to_string(),
                    key: v["key"].as_str().unwrap_or("").to_string(),
                    what: v["what"].as_str().unwrap_or("").to_string(),
                });
            }
        }
    }
    out
}

/// Collects violations of one check run. Thread-safe.
pub struct Reporter {
    pub property: String,
    pub tier: Tier,
    known: Vec<KnownEntry>,
    state: Mutex<RepState>,
    start: Instant,
}

#[derive(Default)]
struct RepState {
    known_hits: BTreeMap<String, u64>,
    violations: Vec<(String, String, Value)>, // key, description, replay
    violation_count: u64,
    notes: Vec<String>,
}

impl Reporter {
    pub fn new(property: &str, tier: Tier) -> Reporter {
        Reporter {
            property: property.to_string(),
            tier,
            known: load_known(),
            state: Mutex::new(RepState::default()),
            start: Instant::now(),
        }
    }

    pub fn is_known(&self, key: &str) -> bool {
        self.known_entry(key).is_some()
    }

    /// a known entry matches exactly, or by prefix when its key ends in '*'
    fn known_entry(&self, key: &str) -> Option<&KnownEntry> {
        self.known.iter().find(|k| {
            k.status == "known"
                && k.property == self.property
                && (k.key == key || (k.key.ends_with('*') && key.starts_with(&k.key[..k.key.len() - 1])))
        })
    }

    /// Report a violation with a classification key. Returns true if it is a *new* violation.
    pub fn violation(&self, key: &str, desc: &str, replay: Value) -> bool {
        let mut st = self.state.lock().unwrap();
        if let Some(e) = self.known_entry(key) {
            *st.known_hits.entry(e.key.clone()).or_insert(0) += 1;
            false
        } else {
            st.violation_count += 1;
            if st.violations.len() < 20 && !st.violations.iter().any(|v| v.0 == key && st_len_ge(&st.violations, key, 3)) {
                // (descriptions of cases with very long inputs are cut; the replay file has the input)
                let d: String = if desc.chars().count() > 1500 { format!("{} ... [{} characters in all]", desc.chars().take(1500).collect::<String>(), desc.chars().count()) } else { desc.to_string() };
                st.violations.push((key.to_string(), d, replay));
            }
            true
        }
    }

    pub fn note(&self, s: &str) {
        let mut st = self.state.lock().unwrap();
        if st.notes.len() < 50 {
            st.notes.push(s.to_string());
        }
    }

    pub fn new_violations(&self) -> u64 {
        self.state.lock().unwrap().violation_count
    }

    pub fn elapsed(&self) -> f64 {
        self.start.elapsed().as_secs_f64()
    }

    /// Print KNOWN-FINDING / VIOLATION lines, write replays and the evidence file; returns exit code.
    pub fn finish(&self, level: &str, mut coverage: Map<String, Value>, assumptions: Vec<String>) -> i32 {
        let st = self.state.lock().unwrap();
        for (k, n) in &st.known_hits {
            let what = self
                .known
                .iter()
                .find(|e| e.key == *k && e.property == self.property)
                .map(|e| e.what.clone())
                .unwrap_or_default();
            println!("KNOWN-FINDING: property={} {} [key={} hits={}]", self.property, what, k, n);
        }
        let _ = std::fs::create_dir_all(format!("{}/replays", VERIF_DIR));
        for (i, (key, desc, replay)) in st.violations.iter().enumerate() {
            let path = format!("{}/replays/{}-{}-{}.json", VERIF_DIR, self.property, self.tier.name(), i);
            let body = json!({"property": self.property, "key": key, "description": desc, "replay": replay});
            if let Ok(mut f) = std::fs::File::create(&path) {
                let _ = f.write_all(serde_json::to_string_pretty(&body).unwrap().as_bytes());
            }
            println!("VIOLATION property={} replay={}", self.property, path);
            println!("  key={} :: {}", key, desc);
        }
        if st.violation_count as usize > st.violations.len() {
            println!("  ({} violations in total; {} replay files written)", st.violation_count, st.violations.len());
        }
        coverage.insert("known_finding_hits".into(), json!(st.known_hits));
        if !st.notes.is_empty() {
            coverage.insert("notes".into(), json!(st.notes));
        }
        let seed: i64 = std::env::var("VERIF_SEED").ok().and_then(|s| s.parse().ok()).unwrap_or(0);
        let ev = json!({
            "property_id": self.property,
            "tier": self.tier.name(),
            "seed": seed,
            "level": level,
            "coverage": Value::Object(coverage),
            "assumptions": assumptions,
            "wall_s": self.elapsed(),
            "violations": st.violation_count,
        });
        let _ = std::fs::create_dir_all(format!("{}/evidence", VERIF_DIR));
        let path = format!("{}/evidence/{}.json", VERIF_DIR, self.property);
        let tmp = format!("{}.tmp", path);
        std::fs::write(&tmp, serde_json::to_string_pretty(&ev).unwrap()).expect("write evidence");
        std::fs::rename(&tmp, &path).expect("rename evidence");
        println!(
            "{} {}: {} new violation(s), {} known-finding key(s), {:.1}s",
            self.property,
            self.tier.name(),
            st.violation_count,
            st.known_hits.len(),
            self.elapsed()
        );
        if st.violation_count > 0 {
            1
        } else {
            0
        }
    }
}

fn st_len_ge(v: &[(String, String, Value)], key: &str, n: usize) -> bool {
    v.iter().filter(|x| x.0 == key).count() >= n
}

/// Run `f(i)` for every i in 0..n on `threads` OS threads (static interleaved partition).
pub fn par_for<F: Fn(u64) + Sync>(n: u64, f: F) {
    let threads = std::thread::available_parallelism().map(|x| x.get()).unwrap_or(8).min(16) as u64;
    let next = std::sync::atomic::AtomicU64::new(0);
    let chunk = (n / (threads * 64)).max(1);
    std::thread::scope(|s| {
        for _ in 0..threads {
            s.spawn(|| loop {
                let start = next.fetch_add(chunk, std::sync::atomic::Ordering::Relaxed);
                if start >= n {
                    break;
                }
                for i in start..(start + chunk).min(n) {
                    f(i);
                }
            });
        }
    });
}

/// Run a closure catching panics; returns Err(message) on panic.
pub fn catch<T>(f: impl FnOnce() -> T) -> Result<T, String> {
    match std::panic::catch_unwind(std::panic::AssertUnwindSafe(f)) {
        Ok(v) => Ok(v),
        Err(e) => Err(if let Some(s) = e.downcast_ref::<&str>() {
            s.to_string()
        } else if let Some(s) = e.downcast_ref::<String>() {
            s.clone()
        } else {
            "panic".to_string()
        }),
    }
}

/// Install a panic hook that stays silent (lanes catch and classify panics themselves) and
/// remembers the location of the last panic on this thread.
pub fn quiet_panics() {
    std::panic::set_hook(Box::new(|info| {
        let loc = info.location().map(|l| format!("{}:{}", l.file(), l.line())).unwrap_or_default();
        let msg = if let Some(s) = info.payload().downcast_ref::<&str>() {
            s.to_string()
        } else if let Some(s) = info.payload().downcast_ref::<String>() {
            s.clone()
        } else {
            "panic".to_string()
        };
        // panics of the harness itself (not of the code under test) are kept for the exit path
        if loc.contains("harness/src") || loc.starts_with("src/") || msg.contains("verif-machinery") {
            if let Ok(mut g) = LAST_HARNESS_PANIC.lock() {
                if g.is_empty() {
                    *g = format!("{} @ {}", msg, loc);
                }
            }
        }
        LAST_PANIC_LOC.with(|c| *c.borrow_mut() = loc);
    }));
}

pub static LAST_HARNESS_PANIC: Mutex<String> = Mutex::new(String::new());

thread_local! {
    pub static LAST_PANIC_LOC: std::cell::RefCell<String> = const { std::cell::RefCell::new(String::new()) };
}

pub fn last_panic_loc() -> String {
    LAST_PANIC_LOC.with(|c| c.borrow().clone())
}

pub fn cov(pairs: Vec<(&str, Value)>) -> Map<String, Value> {
    let mut m = Map::new();
    for (k, v) in pairs {
        m.insert(k.to_string(), v);
    }
    m
}
