//! Scenario, action and observation types of the connection model checker (all serialisable,
//! so that every counterexample is a replayable JSON file).

use serde::{Deserialize, Serialize};
use std::collections::BTreeMap;

#[derive(Clone, Debug, Serialize, Deserialize, PartialEq, Eq, Hash, PartialOrd, Ord)]
pub enum OpKind {
    Bind,
    Compare,
    Delete,
    Extended,
    Add,
    Modify,
    ModDn,
}

#[derive(Clone, Debug, Serialize, Deserialize, PartialEq, Eq, Hash, PartialOrd, Ord)]
pub enum Chain {
    Direct,
    EntriesOnly,
    Paged(i32),
    /// [EntriesOnly, PagedResults]
    EntriesPaged(i32),
    /// a user-defined adapter that passes this many items and then fails (harness-defined,
    /// public Adapter trait)
    FailAfter(usize),
    /// [PagedResults, EntriesOnly]: the pager outermost (the reverse of the documented order)
    PagedEntries(i32),
    /// a user-defined adapter that, when the call up the chain fails, looks at the stream's
    /// state and calls next() on it once more before reporting the failure
    Probe,
}

#[derive(Clone, Debug, Serialize, Deserialize, PartialEq, Eq, Hash, PartialOrd, Ord)]
pub enum AbTarget {
    /// the ID last used on the client's own handle
    OwnLast,
    /// the wire ID under which the server saw this marker (enabled once the server has seen it)
    Marker(String),
    Fixed(i32),
}

#[derive(Clone, Debug, Serialize, Deserialize, PartialEq, Eq, Hash, PartialOrd, Ord)]
pub enum Call {
    Single { kind: OpKind, marker: String, timeout: Option<u64>, ctrl: bool },
    /// Ldap::search() (EntriesOnly + collect)
    Search { marker: String, timeout: Option<u64> },
    Start { marker: String, chain: Chain, timeout: Option<u64>, ctrl: bool, opts: bool, own_paging: bool },
    /// like Start with own_paging, but the caller's paging control comes first / alone
    StartOwnPaging { marker: String, chain: Chain, order: u8 },
    Next,
    Finish,
    Abandon(AbTarget),
    Unbind,
    DropHandle,
    /// a single operation issued through the open stream's own handle (`stream.ldap_handle()`)
    SingleViaStream { kind: OpKind, marker: String },
    /// a second, direct streaming search started through the open stream's own handle
    StartInner { marker: String },
    NextInner,
    FinishInner,
    /// Ldap::search() with the standard search options (size limit 11, time limit 6, typesOnly)
    SearchOpts { marker: String },
    /// drop the stream without finish(), keep the handle
    DropStream,
    /// SearchStream::start() called explicitly on the client's stream (documented as a no-op)
    ExplicitStart,
}

#[derive(Clone, Copy, Debug, Serialize, Deserialize, PartialEq, Eq, Hash, PartialOrd, Ord)]
pub enum FreeCall {
    Next,
    Finish,
}

#[derive(Clone, Debug, Serialize, Deserialize, PartialEq, Eq)]
pub struct ClientSpec {
    pub script: Vec<Call>,
    /// after the script: this many further calls chosen freely from {next, finish}
    pub free: u8,
}

#[derive(Clone, Copy, Debug, Serialize, Deserialize, PartialEq, Eq, Hash, PartialOrd, Ord)]
pub enum ItemKind {
    E,
    R,
    I,
}

#[derive(Clone, Copy, Debug, Serialize, Deserialize, PartialEq, Eq)]
pub enum CookieStyle {
    Distinct,
    Constant,
    /// first page is empty but carries a cookie
    EmptyFirst,
    /// cookies whose last two octets are 04 00 (look like an empty OCTET STRING element)
    TailLooksEmpty,
    /// distinct cookies; the response control is marked critical and carries a result-set
    /// size estimate (70000 on the first page, 128 on later ones) instead of 0
    WithEstimate,
    /// distinct cookies; size estimates that do not fit 31 bits: 2^31 on the first page, then
    /// 2^40, then ff ff ff ff (-1)
    HugeEstimate,
    /// distinct cookies of the given number of octets (length-form boundaries of the cookie, of
    /// the control value around it and of the request that echoes it)
    Long(u32),
}

#[derive(Clone, Debug, Serialize, Deserialize, PartialEq, Eq)]
pub struct Plan {
    pub rc: u32,
    pub items: Vec<ItemKind>,
    pub item_ctrls: bool,
    /// frames which would carry no controls carry a present but empty controls element (a0 00)
    pub empty_ctrls: bool,
    pub res_ctrls: bool,
    pub referral: bool,
    /// paged result-set size (entries), used when the request carries a paging control
    pub total: usize,
    pub cookie: CookieStyle,
    /// the server never answers this request
    pub silent: bool,
    /// paged searches: after this many pages the server goes silent (0 = never)
    #[serde(default)]
    pub silent_after_pages: usize,
    /// paged searches: every page starts with a search result reference
    #[serde(default)]
    pub page_refs: bool,
    /// the final result carries a second control, and on paged searches the paging control
    /// comes first in the list
    #[serde(default)]
    pub extra_res_ctrl: bool,
    /// ExtendedResponse value / BindResponse serverSaslCreds are octets that are not UTF-8
    #[serde(default)]
    pub binary_payload: bool,
    /// intermediate items are sent without name and value (the 7-octet message)
    #[serde(default)]
    pub bare_intermediate: bool,
    /// every reference item repeats its URI (two equal URIs next to each other), the result's
    /// referral (if any) lists its URI twice and then a non-ASCII one
    #[serde(default)]
    pub dup_refs: bool,
    /// every entry carries a value of this many octets (0 = the one-octet default)
    #[serde(default)]
    pub entry_value_size: usize,
    /// every entry carries an attribute with this many values (0 = one)
    #[serde(default)]
    pub entry_values: usize,
    /// the server sends the items but never the final result
    #[serde(default)]
    pub no_done: bool,
    /// this many items (entries, every seventh a reference) instead of `items`
    #[serde(default)]
    pub many_items: usize,
}

impl Default for Plan {
    fn default() -> Plan {
        Plan {
            rc: 0,
            items: vec![],
            item_ctrls: false,
            empty_ctrls: false,
            res_ctrls: false,
            referral: false,
            total: 0,
            cookie: CookieStyle::Distinct,
            silent: false,
            silent_after_pages: 0,
            page_refs: false,
            extra_res_ctrl: false,
            binary_payload: false,
            bare_intermediate: false,
            dup_refs: false,
            entry_value_size: 0,
            entry_values: 0,
            no_done: false,
            many_items: 0,
        }
    }
}

#[derive(Clone, Copy, Debug, Serialize, Deserialize, PartialEq, Eq, Hash, PartialOrd, Ord)]
pub enum BogusKind {
    /// response under an ID that was never used
    UnusedId,
    /// unsolicited notification (ID 0)
    Zero,
    /// a second response for the most recently answered single operation
    DupCompleted,
    /// a search entry for a search the server already finished
    EntryAfterDone,
    /// an IntermediateResponse under the ID of a pending single-result operation
    IntermediateForPending,
}

#[derive(Clone, Copy, Debug, Serialize, Deserialize, PartialEq, Eq, Hash, PartialOrd, Ord)]
pub enum FaultKind {
    Eof,
    Reset,
    Garbage,
    /// a complete element that is no LDAPMessage (30 00), the peer then stays connected and silent
    ShortGarbage,
    /// a complete envelope whose second element announces more octets than the envelope holds
    /// (30 0c 02 01 02 61 0a + 7 octets); the peer then stays connected and silent
    InnerOverrun,
    /// an otherwise well-formed response whose messageID is 2^32 + the ID of the first pending
    /// request (five octets): out of range, hence no LDAPMessage; the peer stays connected
    WideId,
    /// a response for the first pending request whose LDAPResult has three well-formed optional
    /// elements and then a malformed one (a responseName that is not UTF-8); the peer stays connected
    BadResultTail,
    WriteErr,
    /// accept n more bytes, then fail
    WritePartial(usize),
    WritePendingOnce,
}

#[derive(Clone, Copy, Debug, Serialize, Deserialize, PartialEq, Eq, Hash, PartialOrd, Ord)]
pub enum NetStep {
    One,
    Frame,
    All,
}

#[derive(Clone, Debug, Serialize, Deserialize, PartialEq, Eq, Hash, PartialOrd, Ord)]
pub enum Action {
    Do(usize),
    DoFree(usize, FreeCall),
    PollC(usize),
    PollD(u32),
    Srv(i64),
    Bogus(BogusKind),
    Net(NetStep),
    Tick,
    Fault(FaultKind),
    WriteReady,
    DropAll,
    /// make the scenario's raw byte string readable (hostile-input lanes)
    Inject,
    /// the caller of client i's pending call goes away: its future is dropped (with the handle
    /// and stream that were moved into it)
    Cancel(usize),
}

#[derive(Clone, Debug, Serialize, Deserialize, PartialEq, Eq, Default)]
pub struct Oracles {
    pub route: bool,
    pub ids: bool,
    pub leak: bool,
    pub term: bool,
    pub timing: bool,
    pub stream: bool,
    pub paged: bool,
}

#[derive(Clone, Debug, Serialize, Deserialize, PartialEq, Eq)]
pub struct Scenario {
    pub name: String,
    pub clients: Vec<ClientSpec>,
    pub plans: BTreeMap<String, Plan>,
    pub bogus: Vec<BogusKind>,
    /// false: Srv makes whole frames readable; true: Srv stages bytes, Net releases them
    pub byte_mode: bool,
    pub net_steps: Vec<NetStep>,
    pub faults: Vec<FaultKind>,
    pub fault_budget: u8,
    pub tick_ms: u64,
    pub tick_budget: u8,
    pub preset: Option<(i32, Vec<i32>)>,
    /// offer DropAll (drop every handle) once all scripts are finished
    pub drop_all: bool,
    pub answer_after_abandon: bool,
    pub select_starts: Vec<u32>,
    pub oracles: Oracles,
    /// the server closes its side when it has seen an UnbindRequest or a client half-close
    pub server_closes_on_unbind: bool,
    /// raw bytes the server can send once (hostile-input lanes)
    #[serde(default)]
    pub raw_inject: Option<Vec<u8>>,
    /// offer Cancel(i) while client i's call is pending (clients listed here)
    #[serde(default)]
    pub cancellable: Vec<usize>,
}

impl Scenario {
    pub fn new(name: &str) -> Scenario {
        Scenario {
            name: name.to_string(),
            clients: vec![],
            plans: BTreeMap::new(),
            bogus: vec![],
            byte_mode: false,
            net_steps: vec![NetStep::All],
            faults: vec![],
            fault_budget: 0,
            tick_ms: 5,
            tick_budget: 0,
            preset: None,
            drop_all: false,
            answer_after_abandon: false,
            select_starts: vec![0, 1, 3],
            oracles: Oracles::default(),
            server_closes_on_unbind: true,
            raw_inject: None,
            cancellable: vec![],
        }
    }
}

#[derive(Clone, Debug, PartialEq, Eq, Hash, PartialOrd, Ord, Serialize)]
pub struct RCtl {
    pub oid: String,
    pub crit: bool,
    pub val: Option<Vec<u8>>,
    pub known: String,
}

#[derive(Clone, Debug, PartialEq, Eq, Hash, PartialOrd, Ord, Serialize)]
pub struct RRes {
    pub rc: u32,
    pub matched: String,
    pub text: String,
    pub refs: Vec<String>,
    pub ctrls: Vec<RCtl>,
}

#[derive(Clone, Debug, PartialEq, Eq, Hash, PartialOrd, Ord, Serialize)]
pub struct RItem {
    pub kind: ItemKind,
    pub label: String,
    pub ctrls: Vec<RCtl>,
}

#[derive(Clone, Debug, PartialEq, Eq, Hash, PartialOrd, Ord, Serialize)]
pub enum Ret {
    Res(RRes),
    Exop(RRes, Option<String>, Option<Vec<u8>>),
    SearchRes(Vec<RItem>, RRes),
    Started,
    Item(Option<RItem>),
    Fin(RRes),
    Unit,
    Err(String, String),
}

#[derive(Clone, Debug, PartialEq, Eq, Hash, Serialize)]
pub struct Obs {
    pub call: String,
    pub ret: Ret,
    pub t_start: u64,
    pub t_end: u64,
    pub last_id: i32,
    pub stream_state: Option<String>,
    pub stream_last_id: Option<i32>,
}
