//! In-memory transport whose every byte, read boundary and fault the checker decides.

use std::collections::VecDeque;
use std::io;
use std::pin::Pin;
use std::sync::{Arc, Mutex};
use std::task::{Context, Poll, Waker};
use tokio::io::{AsyncRead, AsyncWrite, ReadBuf};

#[derive(Clone, Copy, Debug, PartialEq, Eq)]
pub enum WMode {
    Accept,
    /// accept this many more bytes, then fail
    AcceptThenErr(usize),
    /// return Pending once, then accept
    PendingOnce,
    Err,
}

#[derive(Debug)]
pub struct IoInner {
    /// bytes a read may return now
    pub avail: VecDeque<u8>,
    /// bytes the server has emitted but the network has not delivered yet (byte-level scenarios)
    pub staged: VecDeque<u8>,
    pub eof: bool,
    pub read_err: bool,
    pub read_waker: Option<Waker>,
    pub out: Vec<u8>,
    pub wmode: WMode,
    pub write_waker: Option<Waker>,
    pub shutdown: bool,
    pub dropped: bool,
    pub writes_after_shutdown: u32,
    pub write_errors: u32,
    pub delivered: u64,
    pub read_total: u64,
    /// when set, the transport answers inside poll_write (reactive server, used by the sync lane)
    pub reactor: Option<Reactor>,
    pub max_read: usize,
    /// bytes presented to poll_write that the transport has not accepted (a stalled or failed
    /// write): what the driver has taken off its request queue but not yet put on the wire
    pub offered: Vec<u8>,
}

impl IoInner {
    pub fn new() -> IoInner {
        IoInner {
            avail: VecDeque::new(),
            staged: VecDeque::new(),
            eof: false,
            read_err: false,
            read_waker: None,
            out: Vec::new(),
            wmode: WMode::Accept,
            write_waker: None,
            shutdown: false,
            dropped: false,
            writes_after_shutdown: 0,
            write_errors: 0,
            delivered: 0,
            read_total: 0,
            reactor: None,
            max_read: usize::MAX,
            offered: Vec::new(),
        }
    }
    pub fn wake_reader(&mut self) {
        if let Some(w) = self.read_waker.take() {
            w.wake();
        }
    }
    pub fn wake_writer(&mut self) {
        if let Some(w) = self.write_waker.take() {
            w.wake();
        }
    }
    /// make `bytes` readable
    pub fn deliver(&mut self, bytes: &[u8]) {
        if bytes.is_empty() {
            return;
        }
        self.avail.extend(bytes.iter().copied());
        self.delivered += bytes.len() as u64;
        self.wake_reader();
    }
    pub fn release_staged(&mut self, n: usize) {
        let n = n.min(self.staged.len());
        let v: Vec<u8> = self.staged.drain(..n).collect();
        self.deliver(&v);
    }
    pub fn set_eof(&mut self) {
        self.eof = true;
        self.wake_reader();
    }
    pub fn set_read_err(&mut self) {
        self.read_err = true;
        self.avail.clear();
        self.staged.clear();
        self.wake_reader();
    }
}

#[derive(Debug, Clone)]
pub struct MemIo(pub Arc<Mutex<IoInner>>);

/// called with everything written so far; returns (bytes to make readable, close the read side)
pub struct Reactor(pub Box<dyn FnMut(&[u8]) -> (Vec<u8>, bool) + Send>);

impl std::fmt::Debug for Reactor {
    fn fmt(&self, f: &mut std::fmt::Formatter) -> std::fmt::Result {
        f.write_str("reactor")
    }
}

impl MemIo {
    pub fn new() -> (MemIo, Arc<Mutex<IoInner>>) {
        let inner = Arc::new(Mutex::new(IoInner::new()));
        (MemIo(inner.clone()), inner)
    }
}

impl Drop for MemIo {
    fn drop(&mut self) {
        // only the connection's copy is ever wrapped in MemIo; the harness keeps the Arc
        if let Ok(mut g) = self.0.lock() {
            g.dropped = true;
        }
    }
}

impl AsyncRead for MemIo {
    fn poll_read(self: Pin<&mut Self>, cx: &mut Context<'_>, buf: &mut ReadBuf<'_>) -> Poll<io::Result<()>> {
        let mut g = self.0.lock().unwrap();
        if g.read_err {
            return Poll::Ready(Err(io::Error::new(io::ErrorKind::ConnectionReset, "injected reset")));
        }
        if !g.avail.is_empty() {
            let n = buf.remaining().min(g.avail.len()).min(g.max_read);
            let (a, b) = g.avail.as_slices();
            if n <= a.len() {
                buf.put_slice(&a[..n]);
            } else {
                buf.put_slice(a);
                buf.put_slice(&b[..n - a.len()]);
            }
            g.avail.drain(..n);
            g.read_total += n as u64;
            return Poll::Ready(Ok(()));
        }
        if g.eof {
            return Poll::Ready(Ok(()));
        }
        g.read_waker = Some(cx.waker().clone());
        Poll::Pending
    }
}

impl AsyncWrite for MemIo {
    fn poll_write(self: Pin<&mut Self>, cx: &mut Context<'_>, buf: &[u8]) -> Poll<io::Result<usize>> {
        let mut g = self.0.lock().unwrap();
        if g.shutdown {
            g.writes_after_shutdown += 1;
            return Poll::Ready(Err(io::Error::new(io::ErrorKind::BrokenPipe, "write after shutdown")));
        }
        g.offered.clear();
        match g.wmode {
            WMode::Accept => {
                g.out.extend_from_slice(buf);
                if let Some(mut r) = g.reactor.take() {
                    let all = g.out.clone();
                    let (resp, eof) = (r.0)(&all);
                    g.reactor = Some(r);
                    g.deliver(&resp);
                    if eof {
                        g.set_eof();
                    }
                }
                Poll::Ready(Ok(buf.len()))
            }
            WMode::AcceptThenErr(n) => {
                if n == 0 {
                    g.wmode = WMode::Err;
                    g.write_errors += 1;
                    return Poll::Ready(Err(io::Error::new(io::ErrorKind::BrokenPipe, "injected write error")));
                }
                let k = n.min(buf.len());
                g.out.extend_from_slice(&buf[..k]);
                g.wmode = WMode::AcceptThenErr(n - k);
                g.offered = buf[k..].to_vec();
                Poll::Ready(Ok(k))
            }
            WMode::PendingOnce => {
                g.wmode = WMode::Accept;
                g.write_waker = Some(cx.waker().clone());
                g.offered = buf.to_vec();
                Poll::Pending
            }
            WMode::Err => {
                g.write_errors += 1;
                Poll::Ready(Err(io::Error::new(io::ErrorKind::BrokenPipe, "injected write error")))
            }
        }
    }

    fn poll_flush(self: Pin<&mut Self>, _cx: &mut Context<'_>) -> Poll<io::Result<()>> {
        Poll::Ready(Ok(()))
    }

    fn poll_shutdown(self: Pin<&mut Self>, _cx: &mut Context<'_>) -> Poll<io::Result<()>> {
        let mut g = self.0.lock().unwrap();
        g.shutdown = true;
        Poll::Ready(Ok(()))
    }
}
