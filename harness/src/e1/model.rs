//! stateright model: a state is "the real implementation after history h"; successors are
//! obtained by re-executing h·a from scratch on the real code; de-duplication by canonical digest.

use super::types::*;
use super::world::World;
use crate::common::Reporter;
use serde_json::json;
use stateright::{Checker, Model, Property};
use std::collections::BTreeSet;
use std::hash::{Hash, Hasher};
use std::sync::atomic::{AtomicU64, Ordering};
use std::sync::{Arc, Mutex};

#[derive(Clone, Debug)]
pub struct St {
    pub path: Vec<Action>,
    pub digest: u128,
    pub enabled: Vec<Action>,
    pub bad: bool,
}

impl PartialEq for St {
    fn eq(&self, o: &St) -> bool {
        self.digest == o.digest
    }
}
impl Eq for St {}
impl Hash for St {
    fn hash<H: Hasher>(&self, h: &mut H) {
        self.digest.hash(h)
    }
}

pub fn digest_of(s: &str) -> u128 {
    // two independent 64-bit FNV-1a style hashes with different offsets/primes
    let mut a: u64 = 0xcbf29ce484222325;
    let mut b: u64 = 0x9e3779b97f4a7c15;
    for &c in s.as_bytes() {
        a = (a ^ c as u64).wrapping_mul(0x100000001b3);
        b = (b ^ c as u64).wrapping_mul(0xff51afd7ed558ccd).rotate_left(29);
    }
    ((a as u128) << 64) | b as u128
}

pub struct Outcome {
    pub digest: u128,
    pub prefix_digest: Option<u128>,
    pub enabled: Vec<Action>,
    pub viol: Vec<(String, String)>,
    pub logs: Vec<Vec<Obs>>,
    pub canon: String,
    pub quiescent: bool,
    pub multi_outstanding: bool,
    pub driver: String,
    pub pending: Vec<usize>,
}

/// executions in flight per worker thread: (start, scenario, path) — read by the watchdog
pub static INFLIGHT: Mutex<Vec<(std::thread::ThreadId, std::time::Instant, Arc<Scenario>, Vec<Action>)>> = Mutex::new(Vec::new());

struct InflightGuard;
impl InflightGuard {
    fn new(scn: &Arc<Scenario>, path: &[Action]) -> InflightGuard {
        let id = std::thread::current().id();
        let mut g = INFLIGHT.lock().unwrap();
        g.retain(|e| e.0 != id);
        g.push((id, std::time::Instant::now(), scn.clone(), path.to_vec()));
        InflightGuard
    }
}
impl Drop for InflightGuard {
    fn drop(&mut self) {
        let id = std::thread::current().id();
        INFLIGHT.lock().unwrap().retain(|e| e.0 != id);
    }
}

/// A single poll of the real code that does not return within `limit` is a livelock: report it
/// as a violation (the stuck thread cannot be interrupted, so the process exits from here).
pub fn spawn_watchdog(rep: Arc<Reporter>, limit: std::time::Duration) {
    std::thread::spawn(move || loop {
        std::thread::sleep(std::time::Duration::from_millis(500));
        let stuck = INFLIGHT.lock().unwrap().iter().find(|e| e.1.elapsed() > limit).map(|e| (e.2.clone(), e.3.clone()));
        if let Some((scn, path)) = stuck {
            let replay = json!({"engine": "e1", "scenario": &*scn, "path": path});
            rep.violation(
                "term:livelock-in-poll",
                &format!("[{}] a poll of the real code did not return within {:?} after history {:?} (busy loop)", scn.name, limit, path),
                replay,
            );
            let c = crate::common::cov(vec![
                ("states", json!(1)),
                ("transitions", json!(1)),
                ("traces_validated_against_impl", json!(1)),
                ("samples", json!([{"stuck_path": path}])),
                ("exhaustive", json!(false)),
                ("explanation", json!("exploration aborted by the livelock watchdog")),
            ]);
            let code = rep.finish("model_checking", c, vec![]);
            std::process::exit(code);
        }
    });
}

/// Execute `path` on a fresh real connection. `check_prefix`: also compute the digest after
/// path[..len-1] (used to detect nondeterminism of re-execution).
pub fn run_path(scn: &Arc<Scenario>, path: &[Action], check_prefix: bool) -> Outcome {
    super::world::install_rng_hook();
    let _guard = InflightGuard::new(scn, path);
    let rt = tokio::runtime::Builder::new_current_thread().enable_time().start_paused(true).build().unwrap();
    let out = rt.block_on(async {
        let mut w = World::new(scn.clone());
        let mut prefix_digest = None;
        for (k, a) in path.iter().enumerate() {
            if check_prefix && k + 1 == path.len() {
                prefix_digest = Some(digest_of(&w.canon()));
            }
            // an action must be enabled where it is replayed
            if !w.enabled().contains(a) {
                panic!("verif-machinery: action {:?} not enabled at step {} of {:?}", a, k, path);
            }
            w.apply(a).await;
        }
        let enabled = w.enabled();
        let canon = w.canon();
        w.check_quiescent();
        if enabled.is_empty() {
            w.check_terminal();
        }
        let o = Outcome {
            digest: digest_of(&canon),
            prefix_digest,
            enabled,
            viol: w.viol.clone(),
            logs: w.logs(),
            quiescent: w.quiescent(),
            pending: w.pending_clients(),
            multi_outstanding: w.stats_multi_outstanding,
            driver: match &w.dstatus {
                super::world::DriverStatus::Running => "running".into(),
                super::world::DriverStatus::Done(r) => format!("returned {:?}", r),
                super::world::DriverStatus::Panicked(m) => format!("panicked: {}", m),
            },
            canon,
        };
        drop(w);
        o
    });
    drop(rt);
    out
}

/// Fixed scheduling policies for long single runs (scenarios far beyond what the search can
/// enumerate: hundreds of operations, thousands of items). Each picks, among the enabled
/// actions, the first of its priority list.
#[derive(Clone, Copy, Debug, PartialEq, Eq)]
pub enum Policy {
    /// deliver and consume as early as possible: PollC, PollD, Net, Srv, Bogus, Do, Tick
    Eager,
    /// the server says everything it has before anybody reads: Srv, Bogus, Net, PollD, PollC, Do, Tick
    ServerFirst,
    /// every client starts its call before the driver runs: Do, PollD, Srv, Net, PollC, Tick
    ClientsFirst,
    /// the clock runs ahead of the server: Tick, PollC, PollD, Srv, Net, Do
    ClockFirst,
}

fn rank(p: Policy, a: &Action) -> u32 {
    use Action::*;
    let order: [u8; 8] = match p {
        //            PollC PollD Net Srv Bogus Do Tick other
        Policy::Eager => [0, 1, 2, 3, 4, 5, 6, 7],
        Policy::ServerFirst => [4, 3, 2, 0, 1, 5, 6, 7],
        Policy::ClientsFirst => [4, 1, 3, 2, 5, 0, 6, 7],
        Policy::ClockFirst => [1, 2, 4, 3, 5, 6, 0, 7],
    };
    let k = match a {
        PollC(_) => 0,
        PollD(_) => 1,
        Net(_) => 2,
        Srv(_) => 3,
        Bogus(_) => 4,
        Do(_) | DoFree(_, _) => 5,
        Tick => 6,
        _ => 7,
    };
    order[k] as u32
}

/// One long execution under a fixed policy, in a single world (no re-execution). A fault of the
/// scenario's list is injected once the server has nothing more to say (if the budget allows).
/// Quiescent-state oracles run after every step, the terminal oracle at the end.
pub fn run_canonical(scn: &Arc<Scenario>, policy: Policy, limit: usize) -> (Outcome, Vec<Action>) {
    super::world::install_rng_hook();
    let _guard = InflightGuard::new(scn, &[]);
    let rt = tokio::runtime::Builder::new_current_thread().enable_time().start_paused(true).build().unwrap();
    let out = rt.block_on(async {
        let mut w = World::new(scn.clone());
        let mut path: Vec<Action> = vec![];
        let mut enabled = w.enabled();
        while !enabled.is_empty() && path.len() < limit {
            // faults, cancellations and the last-handle drop are taken only when nothing else is left
            let normal: Vec<&Action> = enabled.iter().filter(|a| !matches!(a, Action::Fault(_) | Action::Cancel(_) | Action::DropAll | Action::WriteReady | Action::Inject)).collect();
            // (the fault comes when nothing but the clock could still move)
            let nothing_else = !normal.iter().any(|a| !matches!(a, Action::Tick));
            let a = if let (true, Some(f)) = (nothing_else, enabled.iter().find(|a| matches!(a, Action::Fault(_)))) {
                f.clone()
            } else if let Some(a) = normal.iter().min_by_key(|a| rank(policy, a)) {
                (*a).clone()
            } else {
                enabled[0].clone()
            };
            w.apply(&a).await;
            path.push(a);
            w.check_quiescent();
            if !w.viol.is_empty() && w.viol.len() > 20 {
                break;
            }
            enabled = w.enabled();
        }
        if enabled.is_empty() {
            w.check_terminal();
        }
        let canon = String::new();
        let o = Outcome {
            digest: 0,
            prefix_digest: None,
            enabled,
            viol: w.viol.clone(),
            logs: w.logs(),
            quiescent: w.quiescent(),
            pending: w.pending_clients(),
            multi_outstanding: w.stats_multi_outstanding,
            driver: match &w.dstatus {
                super::world::DriverStatus::Running => "running".into(),
                super::world::DriverStatus::Done(r) => format!("returned {:?}", r),
                super::world::DriverStatus::Panicked(m) => format!("panicked: {}", m),
            },
            canon,
        };
        drop(w);
        (o, path)
    });
    drop(rt);
    out
}

#[derive(Default)]
pub struct Stats {
    pub transitions: AtomicU64,
    pub terminals: AtomicU64,
    pub max_depth: AtomicU64,
    pub quiescent: AtomicU64,
    pub multi: AtomicU64,
    pub terminal_logs: Mutex<BTreeSet<u128>>,
    pub action_counts: Mutex<std::collections::BTreeMap<String, u64>>,
    pub sample_paths: Mutex<Vec<Vec<Action>>>,
    /// every violation key seen (known findings included)
    pub viol_keys: Mutex<BTreeSet<String>>,
    /// one path per distinct terminal log
    pub terminal_log_paths: Mutex<std::collections::BTreeMap<u128, Vec<Action>>>,
}

pub struct ConnModel {
    pub scn: Arc<Scenario>,
    pub rep: Arc<Reporter>,
    pub stats: Arc<Stats>,
    pub dedup: bool,
    pub max_depth: usize,
}

impl ConnModel {
    fn mk_state(&self, path: Vec<Action>, parent: Option<u128>) -> St {
        let o = run_path(&self.scn, &path, parent.is_some());
        if let (Some(p), Some(q)) = (parent, o.prefix_digest) {
            if p != q {
                eprintln!("verif-machinery: replay divergence in scenario {} at {:?}", self.scn.name, path);
                std::process::exit(2);
            }
        }
        let mut bad = false;
        if std::env::var("VERIF_E1_TRACE").is_ok() {
            eprintln!("trace {:?} -> viol {:?} logs {:?}", path, o.viol.iter().map(|v| &v.0).collect::<Vec<_>>(), o.logs.iter().map(|l| l.iter().map(|x| format!("{:?}", x.ret)).collect::<Vec<_>>()).collect::<Vec<_>>());
        }
        if !o.viol.is_empty() {
            let mut vk = self.stats.viol_keys.lock().unwrap();
            for (k, _) in &o.viol {
                vk.insert(k.clone());
            }
        }
        for (k, d) in &o.viol {
            let replay = json!({"engine": "e1", "scenario": &*self.scn, "path": path});
            if self.rep.violation(k, &format!("[{}] {}", self.scn.name, d), replay) {
                bad = true;
            }
        }
        self.stats.max_depth.fetch_max(path.len() as u64, Ordering::Relaxed);
        if o.quiescent {
            self.stats.quiescent.fetch_add(1, Ordering::Relaxed);
        }
        if o.multi_outstanding {
            self.stats.multi.fetch_add(1, Ordering::Relaxed);
        }
        if o.enabled.is_empty() {
            self.stats.terminals.fetch_add(1, Ordering::Relaxed);
            let d = digest_of(&format!("{:?}", o.logs));
            let mut tl = self.stats.terminal_logs.lock().unwrap();
            if tl.insert(d) {
                self.stats.terminal_log_paths.lock().unwrap().insert(d, path.clone());
                let mut sp = self.stats.sample_paths.lock().unwrap();
                if sp.len() < 3 {
                    sp.push(path.clone());
                }
            }
        }
        let digest = if self.dedup { o.digest } else { digest_of(&format!("{:?}", path)) };
        let enabled = if path.len() >= self.max_depth { vec![] } else { o.enabled };
        St { path, digest, enabled, bad }
    }
}

impl Model for ConnModel {
    type State = St;
    type Action = Action;

    fn init_states(&self) -> Vec<St> {
        vec![self.mk_state(vec![], None)]
    }

    fn actions(&self, s: &St, out: &mut Vec<Action>) {
        out.extend(s.enabled.iter().cloned());
    }

    fn next_state(&self, s: &St, a: Action) -> Option<St> {
        self.stats.transitions.fetch_add(1, Ordering::Relaxed);
        {
            let name = format!("{:?}", a);
            let name = name.split('(').next().unwrap_or("").to_string();
            *self.stats.action_counts.lock().unwrap().entry(name).or_insert(0) += 1;
        }
        let mut p = s.path.clone();
        p.push(a);
        Some(self.mk_state(p, if self.dedup { Some(s.digest) } else { None }))
    }

    fn properties(&self) -> Vec<Property<Self>> {
        vec![Property::always("no new violation", |_, s: &St| !s.bad)]
    }
}

pub struct RunResult {
    pub states: u64,
    pub transitions: u64,
    pub terminals: u64,
    pub distinct_terminal_logs: u64,
    pub max_depth: u64,
    pub quiescent_states: u64,
    pub multi_outstanding_states: u64,
    pub action_counts: std::collections::BTreeMap<String, u64>,
    pub samples: Vec<Vec<Action>>,
    pub found: bool,
    pub terminal_log_set: BTreeSet<u128>,
    pub viol_keys: BTreeSet<String>,
    pub terminal_log_paths: std::collections::BTreeMap<u128, Vec<Action>>,
}

pub fn explore(scn: Scenario, rep: Arc<Reporter>, threads: usize, dfs: bool, dedup: bool, cap: Option<usize>) -> Option<RunResult> {
    let stats = Arc::new(Stats::default());
    let model = ConnModel { scn: Arc::new(scn), rep, stats: stats.clone(), dedup, max_depth: 200 };
    let mut b = model.checker().threads(threads);
    if let Some(c) = cap {
        b = b.target_state_count(c);
    }
    let (found, unique, generated) = if dfs {
        let c = b.spawn_dfs().join();
        (!c.discoveries().is_empty(), c.unique_state_count(), c.state_count())
    } else {
        let c = b.spawn_bfs().join();
        (!c.discoveries().is_empty(), c.unique_state_count(), c.state_count())
    };
    if let Some(c) = cap {
        if generated >= c && !found {
            return None; // too big for the single-threaded phase; the caller re-runs it in parallel
        }
    }
    let tls = stats.terminal_logs.lock().unwrap().clone();
    let vks = stats.viol_keys.lock().unwrap().clone();
    let tl = tls.len() as u64;
    let tlp = stats.terminal_log_paths.lock().unwrap().clone();
    let ac = stats.action_counts.lock().unwrap().clone();
    let sp = stats.sample_paths.lock().unwrap().clone();
    Some(RunResult {
        states: unique as u64,
        transitions: stats.transitions.load(Ordering::Relaxed),
        terminals: stats.terminals.load(Ordering::Relaxed),
        distinct_terminal_logs: tl,
        max_depth: stats.max_depth.load(Ordering::Relaxed),
        quiescent_states: stats.quiescent.load(Ordering::Relaxed),
        multi_outstanding_states: stats.multi.load(Ordering::Relaxed),
        action_counts: ac,
        samples: sp,
        found,
        terminal_log_set: tls,
        viol_keys: vks,
        terminal_log_paths: tlp,
    })
}
