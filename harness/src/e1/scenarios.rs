//! Scenario families per property.

use super::types::*;
use crate::common::Tier;

fn single(kind: OpKind, marker: &str) -> Call {
    Call::Single { kind, marker: marker.into(), timeout: None, ctrl: false }
}
fn tsingle(kind: OpKind, marker: &str, t: u64) -> Call {
    Call::Single { kind, marker: marker.into(), timeout: Some(t), ctrl: false }
}
fn start(marker: &str, chain: Chain) -> Call {
    Call::Start { marker: marker.into(), chain, timeout: None, ctrl: false, opts: false, own_paging: false }
}
fn client(script: Vec<Call>) -> ClientSpec {
    ClientSpec { script, free: 0 }
}
fn plan_items(items: &[ItemKind]) -> Plan {
    Plan { items: items.to_vec(), ..Default::default() }
}
use ItemKind::*;

// ------------------------------------------------------------------------------------------ C01
pub fn c01(tier: Tier) -> Vec<Scenario> {
    let mut out = vec![];
    let route = Oracles { route: true, ids: true, ..Default::default() };

    // R(2,1,1): two single ops on two handles, one direct stream with 2 items, one bogus
    let mut s = Scenario::new("C01/R(2,1,1)-frames");
    s.clients = vec![
        client(vec![single(OpKind::Bind, "a0")]),
        client(vec![single(OpKind::Compare, "b0")]),
        client(vec![start("s0", Chain::Direct), Call::Next, Call::Next, Call::Next, Call::Finish]),
    ];
    s.plans.insert("s0".into(), Plan { items: vec![E, R], item_ctrls: true, res_ctrls: true, ..Default::default() });
    s.plans.insert("b0".into(), Plan { rc: 6, res_ctrls: true, ..Default::default() });
    s.bogus = vec![BogusKind::DupCompleted];
    s.oracles = route.clone();
    out.push(s);

    // two searches interleaved entry by entry + unsolicited ID 0 + unused ID
    let mut s = Scenario::new("C01/R(0,2,2)-two-searches");
    s.clients = vec![
        client(vec![start("s0", Chain::Direct), Call::Next, Call::Next, Call::Next, Call::Finish]),
        client(vec![Call::Search { marker: "s1".into(), timeout: None }]),
    ];
    s.plans.insert("s0".into(), plan_items(&[E, I]));
    s.plans.insert("s1".into(), Plan { items: vec![E, R, E], rc: 4, ..Default::default() });
    s.bogus = vec![BogusKind::Zero, BogusKind::UnusedId];
    s.oracles = route.clone();
    out.push(s);

    // sequential reuse on one handle + late entry for a finished search
    let mut s = Scenario::new("C01/R(2seq,1,1)-late-entry");
    s.clients = vec![
        client(vec![single(OpKind::Delete, "a0"), single(OpKind::Extended, "a1")]),
        client(vec![Call::Search { marker: "s0".into(), timeout: None }, single(OpKind::Add, "b1")]),
    ];
    s.plans.insert("s0".into(), plan_items(&[E]));
    s.plans.insert("a1".into(), Plan { rc: 32, ..Default::default() });
    s.bogus = vec![BogusKind::EntryAfterDone];
    s.oracles = route.clone();
    out.push(s);

    if tier == Tier::Thorough {
        let mut s = Scenario::new("C01/R(3,1,0)");
        s.clients = vec![
            client(vec![single(OpKind::Bind, "a0")]),
            client(vec![single(OpKind::Modify, "b0")]),
            client(vec![single(OpKind::ModDn, "c0")]),
            client(vec![Call::Search { marker: "s0".into(), timeout: None }]),
        ];
        s.plans.insert("s0".into(), plan_items(&[E, E]));
        s.oracles = route.clone();
        out.push(s);

        let mut s = Scenario::new("C01/R(2,2,2)");
        s.clients = vec![
            client(vec![single(OpKind::Bind, "a0")]),
            client(vec![single(OpKind::Compare, "b0")]),
            client(vec![start("s0", Chain::Direct), Call::Next, Call::Next, Call::Next, Call::Finish]),
            client(vec![Call::Search { marker: "s1".into(), timeout: None }]),
        ];
        s.plans.insert("s0".into(), plan_items(&[E, R]));
        s.plans.insert("s1".into(), plan_items(&[E, I]));
        s.bogus = vec![BogusKind::DupCompleted, BogusKind::UnusedId];
        s.oracles = route.clone();
        out.push(s);
    }

    // byte level: every frame may be cut anywhere (Net(One) / Net(Frame) / Net(All))
    let mut s = Scenario::new("C01/R(1,1,0)-bytes");
    s.clients = vec![client(vec![single(OpKind::Bind, "a")]), client(vec![Call::Search { marker: "s".into(), timeout: None }])];
    s.plans.insert("s".into(), plan_items(&[E]));
    s.byte_mode = true;
    s.net_steps = if tier == Tier::Thorough { vec![NetStep::One, NetStep::Frame, NetStep::All] } else { vec![NetStep::One, NetStep::All] };
    s.select_starts = vec![0, 3];
    s.oracles = route;
    out.push(s);
    out
}

// ------------------------------------------------------------------------------------------ C13
#[derive(Clone, Copy, Debug, PartialEq, Eq)]
pub enum Step {
    SingleOk,
    SingleErr,
    TimedOut,
    AbandonFinished,
    AbandonTimedOut,
    AbandonInFlight,
    DirectFull,
    DirectEarly,
    EntriesOnlyFull,
    EntriesOnlyEarly,
    SearchAll,
    Paged2,
    PagedEarly,
    Unsolicited,
}

pub const ALL_STEPS: [Step; 13] = [
    Step::SingleOk,
    Step::SingleErr,
    Step::TimedOut,
    Step::AbandonFinished,
    Step::AbandonTimedOut,
    Step::DirectFull,
    Step::DirectEarly,
    Step::EntriesOnlyFull,
    Step::EntriesOnlyEarly,
    Step::SearchAll,
    Step::Paged2,
    Step::PagedEarly,
    Step::Unsolicited,
];

/// append the calls of one step (markers are made unique with `tag`)
fn push_step(s: &mut Scenario, script: &mut Vec<Call>, step: Step, tag: &str) {
    let m = |x: &str| format!("{}{}", tag, x);
    match step {
        Step::SingleOk => script.push(single(OpKind::Bind, &m("ok"))),
        Step::SingleErr => {
            script.push(single(OpKind::Delete, &m("er")));
            s.plans.insert(m("er"), Plan { rc: 32, ..Default::default() });
        }
        Step::TimedOut => {
            script.push(tsingle(OpKind::Compare, &m("to"), 10));
            s.plans.insert(m("to"), Plan { silent: true, ..Default::default() });
            s.tick_budget += 2;
        }
        Step::AbandonFinished => {
            script.push(single(OpKind::Bind, &m("af")));
            script.push(Call::Abandon(AbTarget::OwnLast));
        }
        Step::AbandonTimedOut => {
            script.push(tsingle(OpKind::Compare, &m("at"), 10));
            s.plans.insert(m("at"), Plan { silent: true, ..Default::default() });
            s.tick_budget += 2;
            script.push(Call::Abandon(AbTarget::OwnLast));
        }
        Step::AbandonInFlight => unreachable!("needs two clients"),
        Step::DirectFull => {
            script.extend([start(&m("df"), Chain::Direct), Call::Next, Call::Next, Call::Finish]);
            s.plans.insert(m("df"), plan_items(&[E]));
        }
        Step::DirectEarly => {
            script.extend([start(&m("de"), Chain::Direct), Call::Next, Call::Finish]);
            s.plans.insert(m("de"), plan_items(&[E, E]));
        }
        Step::EntriesOnlyFull => {
            script.extend([start(&m("ef"), Chain::EntriesOnly), Call::Next, Call::Next, Call::Finish]);
            s.plans.insert(m("ef"), plan_items(&[E]));
        }
        Step::EntriesOnlyEarly => {
            script.extend([start(&m("ee"), Chain::EntriesOnly), Call::Next, Call::Finish]);
            s.plans.insert(m("ee"), plan_items(&[E, E]));
        }
        Step::SearchAll => {
            script.push(Call::Search { marker: m("sa"), timeout: None });
            s.plans.insert(m("sa"), plan_items(&[E]));
        }
        Step::Paged2 => {
            script.extend([start(&m("pg"), Chain::Paged(1)), Call::Next, Call::Next, Call::Next, Call::Finish]);
            s.plans.insert(m("pg"), Plan { total: 2, ..Default::default() });
        }
        Step::PagedEarly => {
            // finish while page 2 is open
            script.extend([start(&m("pe"), Chain::Paged(1)), Call::Next, Call::Next, Call::Finish]);
            s.plans.insert(m("pe"), Plan { total: 3, ..Default::default() });
        }
        Step::Unsolicited => {
            script.push(single(OpKind::Bind, &m("un")));
            if !s.bogus.contains(&BogusKind::DupCompleted) {
                s.bogus.push(BogusKind::DupCompleted);
            }
        }
    }
}

pub fn c13_seq(steps: &[Step], repeat: usize) -> Scenario {
    let name = format!("C13/seq{:?}x{}", steps, repeat);
    let mut s = Scenario::new(&name);
    let mut script = vec![];
    for r in 0..repeat {
        for (k, st) in steps.iter().enumerate() {
            push_step(&mut s, &mut script, *st, &format!("r{}k{}", r, k));
        }
    }
    s.clients = vec![client(script)];
    s.oracles = Oracles { leak: true, ids: true, route: true, ..Default::default() };
    s.select_starts = vec![0, 1];
    s
}

pub fn c13_pair(a: Step, b: Step) -> Scenario {
    let mut s = Scenario::new(&format!("C13/pair[{:?}|{:?}]", a, b));
    let mut sa = vec![];
    let mut sb = vec![];
    push_step(&mut s, &mut sa, a, "A");
    push_step(&mut s, &mut sb, b, "B");
    s.clients = vec![client(sa), client(sb)];
    s.oracles = Oracles { leak: true, ids: true, route: true, ..Default::default() };
    s.select_starts = vec![0, 1];
    s
}

pub fn c13_abandon_inflight(kind: &str) -> Scenario {
    let mut s = Scenario::new(&format!("C13/abandon-in-flight-{}", kind));
    match kind {
        "single" => {
            s.clients = vec![client(vec![single(OpKind::Compare, "victim")]), client(vec![Call::Abandon(AbTarget::Marker("victim".into())), single(OpKind::Bind, "after")])];
        }
        _ => {
            s.clients = vec![
                client(vec![start("victim", Chain::Direct), Call::Next, Call::Next, Call::Finish]),
                client(vec![Call::Abandon(AbTarget::Marker("victim".into())), single(OpKind::Bind, "after")]),
            ];
            s.plans.insert("victim".into(), plan_items(&[E, E]));
        }
    }
    s.answer_after_abandon = false;
    s.oracles = Oracles { leak: true, ids: true, route: true, term: true, ..Default::default() };
    s.select_starts = vec![0, 1];
    s
}

pub fn c13(tier: Tier) -> Vec<Scenario> {
    let mut out = vec![];
    for a in ALL_STEPS {
        out.push(c13_seq(&[a], 1));
    }
    // differential non-growth: the history repeated
    for a in ALL_STEPS {
        out.push(c13_seq(&[a], 3));
    }
    out.push(c13_abandon_inflight("single"));
    out.push(c13_abandon_inflight("stream"));
    let pairs: Vec<(Step, Step)> = if tier == Tier::Thorough {
        let mut v = vec![];
        for a in ALL_STEPS {
            for b in ALL_STEPS {
                v.push((a, b));
            }
        }
        v
    } else {
        vec![
            (Step::SingleOk, Step::SearchAll),
            (Step::TimedOut, Step::DirectFull),
            (Step::DirectEarly, Step::EntriesOnlyFull),
            (Step::Paged2, Step::SingleErr),
            (Step::AbandonFinished, Step::EntriesOnlyEarly),
            (Step::PagedEarly, Step::AbandonTimedOut),
        ]
    };
    for (a, b) in &pairs {
        out.push(c13_seq(&[*a, *b], 1));
    }
    if tier == Tier::Thorough {
        for (a, b) in &pairs {
            if *a <= b_ord(*b, *a) {
                out.push(c13_pair(*a, *b));
            }
        }
    } else {
        out.push(c13_pair(Step::SingleOk, Step::SearchAll));
        out.push(c13_pair(Step::TimedOut, Step::EntriesOnlyFull));
        out.push(c13_pair(Step::Paged2, Step::DirectEarly));
    }
    out
}

fn b_ord(b: Step, _a: Step) -> Step {
    b
}

impl PartialOrd for Step {
    fn partial_cmp(&self, o: &Step) -> Option<std::cmp::Ordering> {
        (*self as u8).partial_cmp(&(*o as u8))
    }
}
