//! Scenario families per property.

use super::types::*;
use crate::common::Tier;

fn single(kind: OpKind, marker: &str) -> Call {
    Call::Single { kind, marker: marker.into(), timeout: None, ctrl: false }
}
fn tsingle(kind: OpKind, marker: &str, t: u64) -> Call {
    Call::Single { kind, marker: marker.into(), timeout: Some(t), ctrl: false }
}
fn start(marker: &str, chain: Chain) -> Call {
    Call::Start { marker: marker.into(), chain, timeout: None, ctrl: false, opts: false, own_paging: false }
}
fn client(script: Vec<Call>) -> ClientSpec {
    ClientSpec { script, free: 0 }
}
fn plan_items(items: &[ItemKind]) -> Plan {
    Plan { items: items.to_vec(), ..Default::default() }
}
use ItemKind::*;

// ------------------------------------------------------------------------------------------ C01
pub fn c01(tier: Tier) -> Vec<Scenario> {
    let mut out = vec![];
    let route = Oracles { route: true, ids: true, ..Default::default() };

    // R(2,1,1): two single ops on two handles, one direct stream with 2 items, one bogus
    let mut s = Scenario::new("C01/R(2,1,1)-frames");
    s.clients = vec![
        client(vec![single(OpKind::Bind, "a0")]),
        client(vec![single(OpKind::Compare, "b0")]),
        client(vec![start("s0", Chain::Direct), Call::Next, Call::Next, Call::Next, Call::Finish]),
    ];
    s.plans.insert("s0".into(), Plan { items: vec![E, R], item_ctrls: true, res_ctrls: true, ..Default::default() });
    s.plans.insert("b0".into(), Plan { rc: 6, res_ctrls: true, ..Default::default() });
    s.bogus = vec![BogusKind::DupCompleted];
    s.oracles = route.clone();
    out.push(s);

    // two searches interleaved entry by entry + unsolicited ID 0 + unused ID
    let mut s = Scenario::new("C01/R(0,2,2)-two-searches");
    s.clients = vec![
        client(vec![start("s0", Chain::Direct), Call::Next, Call::Next, Call::Next, Call::Finish]),
        client(vec![Call::Search { marker: "s1".into(), timeout: None }]),
    ];
    s.plans.insert("s0".into(), plan_items(&[E, I]));
    s.plans.insert("s1".into(), Plan { items: vec![E, R, E], rc: 4, ..Default::default() });
    s.bogus = vec![BogusKind::Zero, BogusKind::UnusedId];
    s.oracles = route.clone();
    out.push(s);

    // sequential reuse on one handle + late entry for a finished search
    let mut s = Scenario::new("C01/R(2seq,1,1)-late-entry");
    s.clients = vec![
        client(vec![single(OpKind::Delete, "a0"), single(OpKind::Extended, "a1")]),
        client(vec![Call::Search { marker: "s0".into(), timeout: None }, single(OpKind::Add, "b1")]),
    ];
    s.plans.insert("s0".into(), plan_items(&[E]));
    s.plans.insert("a1".into(), Plan { rc: 32, ..Default::default() });
    s.bogus = vec![BogusKind::EntryAfterDone];
    s.oracles = route.clone();
    out.push(s);

    if tier == Tier::Thorough {
        let mut s = Scenario::new("C01/R(3,1,0)");
        s.clients = vec![
            client(vec![single(OpKind::Bind, "a0")]),
            client(vec![single(OpKind::Modify, "b0")]),
            client(vec![single(OpKind::ModDn, "c0")]),
            client(vec![Call::Search { marker: "s0".into(), timeout: None }]),
        ];
        s.plans.insert("s0".into(), plan_items(&[E, E]));
        s.oracles = route.clone();
        out.push(s);

        let mut s = Scenario::new("C01/R(2,2,1)");
        s.clients = vec![
            client(vec![single(OpKind::Bind, "a0")]),
            client(vec![single(OpKind::Compare, "b0")]),
            client(vec![start("s0", Chain::Direct), Call::Next, Call::Next, Call::Finish]),
            client(vec![Call::Search { marker: "s1".into(), timeout: None }]),
        ];
        // (one item per search, one unsolicited PDU, one select! start branch: anything more
        // exceeds 4*10^7 generated states; the races between branches and longer item
        // sequences are covered by the smaller scenarios)
        s.plans.insert("s0".into(), plan_items(&[E]));
        s.plans.insert("s1".into(), plan_items(&[R]));
        s.bogus = vec![BogusKind::UnusedId];
        s.select_starts = vec![1];
        s.oracles = route.clone();
        out.push(s);
    }

    // another handle abandons a pending single operation; the server may still answer it late:
    // whatever the waiting caller is handed must have come from the server under its ID
    let mut s = Scenario::new("C01/abandon-pending-single");
    s.clients = vec![
        client(vec![single(OpKind::Delete, "v0")]),
        client(vec![Call::Abandon(AbTarget::Marker("v0".into())), single(OpKind::Compare, "b1")]),
    ];
    s.plans.insert("b1".into(), Plan { rc: 5, ..Default::default() });
    s.answer_after_abandon = true;
    s.select_starts = vec![0, 1];
    s.oracles = route.clone();
    out.push(s);

    // an open search is abandoned from another handle and the server goes on sending its items:
    // once the Abandon has been acknowledged they are late responses, for nobody
    for chain in [Chain::Direct, Chain::EntriesOnly] {
        let mut s = Scenario::new(&format!("C01/abandon-open-stream/{:?}", chain));
        s.clients = vec![
            client(vec![start("s0", chain), Call::Next, Call::Next, Call::Next, Call::Next, Call::Finish]),
            client(vec![Call::Abandon(AbTarget::Marker("s0".into())), single(OpKind::Compare, "b1")]),
        ];
        s.plans.insert("s0".into(), plan_items(&[E, E, E]));
        s.answer_after_abandon = true;
        s.select_starts = vec![0, 1];
        s.oracles = route.clone();
        out.push(s);
    }

    // a response whose messageID is 2^32 + a pending ID (five octets) is for nobody: it is no
    // LDAPMessage at all, and whatever a caller is handed afterwards was sent under its own ID
    for with_stream in [false, true] {
        let mut s = Scenario::new(&format!("C01/wide-id-frame/stream={}", with_stream));
        s.clients = vec![
            if with_stream { client(vec![start("s0", Chain::Direct), Call::Next, Call::Next, Call::Finish]) } else { client(vec![single(OpKind::Delete, "a0")]) },
            client(vec![single(OpKind::Compare, "b0"), single(OpKind::Bind, "b1")]),
        ];
        s.plans.insert("s0".into(), plan_items(&[E]));
        s.faults = vec![FaultKind::WideId];
        s.fault_budget = 1;
        s.select_starts = vec![0, 1];
        s.oracles = route.clone();
        out.push(s);
    }

    // a stream dropped without finish(): the rest of its items arrive late, for nobody, and
    // must not disturb the operations of the other handle
    let mut s = Scenario::new("C01/stream-dropped-unfinished");
    s.clients = vec![
        client(vec![start("s0", Chain::Direct), Call::Next, Call::DropHandle]),
        client(vec![single(OpKind::Compare, "b0"), single(OpKind::Delete, "b1")]),
    ];
    s.plans.insert("s0".into(), plan_items(&[E, E]));
    s.select_starts = vec![0, 1];
    s.oracles = route.clone();
    out.push(s);

    // operations issued through an open stream's own handle (stream.ldap_handle()): a second
    // search and a single operation; the outer stream is then finished early while they run
    let mut s = Scenario::new("C01/through-the-stream-handle");
    s.clients = vec![
        client(vec![
            start("s0", Chain::Direct),
            Call::Next,
            Call::StartInner { marker: "i0".into() },
            Call::Finish,
            Call::NextInner,
            Call::NextInner,
            Call::NextInner,
            Call::FinishInner,
        ]),
        client(vec![single(OpKind::Bind, "b0")]),
    ];
    s.plans.insert("s0".into(), plan_items(&[E, E]));
    s.plans.insert("i0".into(), Plan { items: vec![E, R], rc: 4, ..Default::default() });
    s.select_starts = vec![0, 1];
    s.oracles = route.clone();
    out.push(s);
    let mut s = Scenario::new("C01/single-through-the-stream-handle");
    s.clients = vec![client(vec![
        start("s0", Chain::Direct),
        Call::SingleViaStream { kind: OpKind::Compare, marker: "c0".into() },
        Call::Next,
        Call::Next,
        Call::Finish,
    ])];
    s.plans.insert("s0".into(), plan_items(&[E]));
    s.plans.insert("c0".into(), Plan { rc: 6, ..Default::default() });
    s.select_starts = vec![0, 1];
    s.oracles = route.clone();
    out.push(s);

    // the shortest message there is (an IntermediateResponse without name and value, 7 octets)
    // as a search item, alone in a read
    let mut s = Scenario::new("C01/bare-intermediate-items");
    s.clients = vec![
        client(vec![start("s0", Chain::Direct), Call::Next, Call::Next, Call::Next, Call::Next, Call::Finish]),
        client(vec![Call::Search { marker: "s1".into(), timeout: None }]),
    ];
    s.plans.insert("s0".into(), Plan { items: vec![I, E, I], bare_intermediate: true, ..Default::default() });
    s.plans.insert("s1".into(), Plan { items: vec![I, E], bare_intermediate: true, ..Default::default() });
    s.select_starts = vec![1];
    s.oracles = route.clone();
    out.push(s);

    // byte level with responses beyond 127 octets (long-form outer length): every cut position,
    // also inside the length octets
    out.extend(long_response_bytes("C01"));

    // byte level: every frame may be cut anywhere (Net(One) / Net(Frame) / Net(All))
    let mut s = Scenario::new("C01/R(1,1,0)-bytes");
    s.clients = vec![client(vec![single(OpKind::Bind, "a")]), client(vec![Call::Search { marker: "s".into(), timeout: None }])];
    s.plans.insert("s".into(), plan_items(&[E]));
    s.byte_mode = true;
    s.net_steps = if tier == Tier::Thorough { vec![NetStep::One, NetStep::Frame, NetStep::All] } else { vec![NetStep::One, NetStep::All] };
    s.select_starts = vec![0, 3];
    s.oracles = route;
    out.push(s);
    out
}

/// single operations whose responses are longer than 127 octets (the 130- / 300-character marker
/// comes back as the diagnostic text), delivered byte by byte or whole; one scenario per length
/// (a second, short operation runs alongside the first)
pub fn long_response_bytes(prop: &str) -> Vec<Scenario> {
    let mut out = vec![];
    for (n, kind, rc) in [(130usize, OpKind::Bind, 0u32), (300, OpKind::Compare, 6)] {
        let mut s = Scenario::new(&format!("{}/long-response-{}-bytes", prop, n));
        let m = "L".repeat(n);
        s.clients = vec![client(vec![single(kind, &m)])];
        if n == 130 {
            s.clients.push(client(vec![single(OpKind::Delete, "d")]));
        }
        s.plans.insert(m, Plan { rc, res_ctrls: n == 300, ..Default::default() });
        s.byte_mode = true;
        s.net_steps = vec![NetStep::One, NetStep::All];
        s.select_starts = vec![3];
        s.oracles = Oracles { route: true, ids: true, ..Default::default() };
        out.push(s);
    }
    out
}

// ------------------------------------------------------------------------------------------ C13
#[derive(Clone, Copy, Debug, PartialEq, Eq)]
pub enum Step {
    SingleOk,
    SingleErr,
    TimedOut,
    AbandonFinished,
    AbandonTimedOut,
    AbandonInFlight,
    DirectFull,
    DirectEarly,
    EntriesOnlyFull,
    EntriesOnlyEarly,
    SearchAll,
    Paged2,
    PagedEarly,
    Unsolicited,
    /// search() with a timeout against a server that never answers: the stream is dropped unfinished
    SearchAllTimedOut,
    /// a timed stream whose next() times out, then finish()
    StreamTimedOutFinish,
    /// a user-defined adapter fails mid-stream while the search is live, then finish()
    CustomAdapterFails,
    /// [PagedResults, EntriesOnly] (pager outermost), two pages read to the end
    PagedEntries2,
    /// the same chain, finished while page 2 is open
    PagedEntriesEarly,
    /// the server sends an IntermediateResponse under the ID of a pending extended operation
    SingleGetsIntermediate,
    /// a single operation through an open stream's own handle, the stream finished early
    ThroughStreamHandle,
    /// a second search through an open stream's own handle, the outer stream finished early
    /// while the inner one runs
    InnerSearchThroughHandle,
}

pub const ALL_STEPS: [Step; 21] = [
    Step::SingleOk,
    Step::SingleErr,
    Step::TimedOut,
    Step::AbandonFinished,
    Step::AbandonTimedOut,
    Step::DirectFull,
    Step::DirectEarly,
    Step::EntriesOnlyFull,
    Step::EntriesOnlyEarly,
    Step::SearchAll,
    Step::Paged2,
    Step::PagedEarly,
    Step::Unsolicited,
    Step::SearchAllTimedOut,
    Step::StreamTimedOutFinish,
    Step::CustomAdapterFails,
    Step::PagedEntries2,
    Step::PagedEntriesEarly,
    Step::SingleGetsIntermediate,
    Step::ThroughStreamHandle,
    Step::InnerSearchThroughHandle,
];

/// append the calls of one step (markers are made unique with `tag`)
fn push_step(s: &mut Scenario, script: &mut Vec<Call>, step: Step, tag: &str) {
    let m = |x: &str| format!("{}{}", tag, x);
    match step {
        Step::SingleOk => script.push(single(OpKind::Bind, &m("ok"))),
        Step::SingleErr => {
            script.push(single(OpKind::Delete, &m("er")));
            s.plans.insert(m("er"), Plan { rc: 32, ..Default::default() });
        }
        Step::TimedOut => {
            script.push(tsingle(OpKind::Compare, &m("to"), 10));
            s.plans.insert(m("to"), Plan { silent: true, ..Default::default() });
            s.tick_budget += 2;
        }
        Step::AbandonFinished => {
            script.push(single(OpKind::Bind, &m("af")));
            script.push(Call::Abandon(AbTarget::OwnLast));
        }
        Step::AbandonTimedOut => {
            script.push(tsingle(OpKind::Compare, &m("at"), 10));
            s.plans.insert(m("at"), Plan { silent: true, ..Default::default() });
            s.tick_budget += 2;
            script.push(Call::Abandon(AbTarget::OwnLast));
        }
        Step::AbandonInFlight => unreachable!("needs two clients"),
        Step::DirectFull => {
            script.extend([start(&m("df"), Chain::Direct), Call::Next, Call::Next, Call::Finish]);
            s.plans.insert(m("df"), plan_items(&[E]));
        }
        Step::DirectEarly => {
            script.extend([start(&m("de"), Chain::Direct), Call::Next, Call::Finish]);
            s.plans.insert(m("de"), plan_items(&[E, E]));
        }
        Step::EntriesOnlyFull => {
            script.extend([start(&m("ef"), Chain::EntriesOnly), Call::Next, Call::Next, Call::Finish]);
            s.plans.insert(m("ef"), plan_items(&[E]));
        }
        Step::EntriesOnlyEarly => {
            script.extend([start(&m("ee"), Chain::EntriesOnly), Call::Next, Call::Finish]);
            s.plans.insert(m("ee"), plan_items(&[E, E]));
        }
        Step::SearchAll => {
            script.push(Call::Search { marker: m("sa"), timeout: None });
            s.plans.insert(m("sa"), plan_items(&[E]));
        }
        Step::Paged2 => {
            script.extend([start(&m("pg"), Chain::Paged(1)), Call::Next, Call::Next, Call::Next, Call::Finish]);
            s.plans.insert(m("pg"), Plan { total: 2, ..Default::default() });
        }
        Step::PagedEarly => {
            // finish while page 2 is open
            script.extend([start(&m("pe"), Chain::Paged(1)), Call::Next, Call::Next, Call::Finish]);
            s.plans.insert(m("pe"), Plan { total: 3, ..Default::default() });
        }
        Step::SearchAllTimedOut => {
            script.push(Call::Search { marker: m("st"), timeout: Some(10) });
            s.plans.insert(m("st"), Plan { silent: true, ..Default::default() });
            s.tick_budget += 2;
        }
        Step::StreamTimedOutFinish => {
            script.extend([
                Call::Start { marker: m("sf"), chain: Chain::EntriesOnly, timeout: Some(10), ctrl: false, opts: false, own_paging: false },
                Call::Next,
                Call::Finish,
            ]);
            s.plans.insert(m("sf"), Plan { silent: true, ..Default::default() });
            s.tick_budget += 2;
        }
        Step::CustomAdapterFails => {
            script.extend([start(&m("cf"), Chain::FailAfter(1)), Call::Next, Call::Next, Call::Finish]);
            s.plans.insert(m("cf"), plan_items(&[E, E, E]));
        }
        Step::PagedEntries2 => {
            script.extend([start(&m("qg"), Chain::PagedEntries(1)), Call::Next, Call::Next, Call::Next, Call::Finish]);
            s.plans.insert(m("qg"), Plan { total: 2, ..Default::default() });
        }
        Step::PagedEntriesEarly => {
            script.extend([start(&m("qe"), Chain::PagedEntries(1)), Call::Next, Call::Next, Call::Finish]);
            s.plans.insert(m("qe"), Plan { total: 3, ..Default::default() });
        }
        Step::SingleGetsIntermediate => {
            script.push(single(OpKind::Extended, &m("ir")));
            if !s.bogus.contains(&BogusKind::IntermediateForPending) {
                s.bogus.push(BogusKind::IntermediateForPending);
            }
        }
        Step::ThroughStreamHandle => {
            script.extend([start(&m("so"), Chain::Direct), Call::SingleViaStream { kind: OpKind::Compare, marker: m("sc") }, Call::Next, Call::Finish]);
            s.plans.insert(m("so"), plan_items(&[E, E]));
        }
        Step::InnerSearchThroughHandle => {
            script.extend([
                start(&m("to"), Chain::Direct),
                Call::StartInner { marker: m("ti") },
                Call::Next,
                Call::Finish,
                Call::NextInner,
                Call::NextInner,
                Call::FinishInner,
            ]);
            s.plans.insert(m("to"), plan_items(&[E, E]));
            s.plans.insert(m("ti"), plan_items(&[E]));
        }
        Step::Unsolicited => {
            script.push(single(OpKind::Bind, &m("un")));
            if !s.bogus.contains(&BogusKind::DupCompleted) {
                s.bogus.push(BogusKind::DupCompleted);
            }
        }
    }
}

pub fn c13_seq(steps: &[Step], repeat: usize) -> Scenario {
    let name = format!("C13/seq{:?}x{}", steps, repeat);
    let mut s = Scenario::new(&name);
    let mut script = vec![];
    for r in 0..repeat {
        for (k, st) in steps.iter().enumerate() {
            push_step(&mut s, &mut script, *st, &format!("r{}k{}", r, k));
        }
    }
    s.clients = vec![client(script)];
    s.oracles = Oracles { leak: true, ids: true, route: true, ..Default::default() };
    s.select_starts = vec![0, 1];
    s
}

pub fn c13_pair(a: Step, b: Step) -> Scenario {
    let mut s = Scenario::new(&format!("C13/pair[{:?}|{:?}]", a, b));
    let mut sa = vec![];
    let mut sb = vec![];
    push_step(&mut s, &mut sa, a, "A");
    push_step(&mut s, &mut sb, b, "B");
    s.clients = vec![client(sa), client(sb)];
    s.oracles = Oracles { leak: true, ids: true, route: true, ..Default::default() };
    s.select_starts = vec![0, 1];
    s
}

pub fn c13_abandon_inflight(kind: &str) -> Scenario {
    let mut s = Scenario::new(&format!("C13/abandon-in-flight-{}", kind));
    match kind {
        "single" => {
            s.clients = vec![client(vec![single(OpKind::Compare, "victim")]), client(vec![Call::Abandon(AbTarget::Marker("victim".into())), single(OpKind::Bind, "after")])];
        }
        _ => {
            s.clients = vec![
                client(vec![start("victim", Chain::Direct), Call::Next, Call::Next, Call::Finish]),
                client(vec![Call::Abandon(AbTarget::Marker("victim".into())), single(OpKind::Bind, "after")]),
            ];
            s.plans.insert("victim".into(), plan_items(&[E, E]));
        }
    }
    s.answer_after_abandon = false;
    s.oracles = Oracles { leak: true, ids: true, route: true, term: true, ..Default::default() };
    s.select_starts = vec![0, 1];
    s
}

pub fn c13(tier: Tier) -> Vec<Scenario> {
    let mut out = vec![];
    for a in ALL_STEPS {
        out.push(c13_seq(&[a], 1));
    }
    // differential non-growth: the history repeated
    for a in ALL_STEPS {
        out.push(c13_seq(&[a], 3));
    }
    out.push(c13_abandon_inflight("single"));
    out.push(c13_abandon_inflight("stream"));
    let pairs: Vec<(Step, Step)> = if tier == Tier::Thorough {
        let mut v = vec![];
        for a in ALL_STEPS {
            for b in ALL_STEPS {
                v.push((a, b));
            }
        }
        v
    } else {
        vec![
            (Step::SingleOk, Step::SearchAll),
            (Step::TimedOut, Step::DirectFull),
            (Step::DirectEarly, Step::EntriesOnlyFull),
            (Step::Paged2, Step::SingleErr),
            (Step::AbandonFinished, Step::EntriesOnlyEarly),
            (Step::PagedEarly, Step::AbandonTimedOut),
        ]
    };
    for (a, b) in &pairs {
        out.push(c13_seq(&[*a, *b], 1));
    }
    if tier == Tier::Thorough {
        for (a, b) in &pairs {
            // (the seven-call inner-search step runs alone and in sequences only: next to a second
            // client it multiplies the state space by three orders of magnitude)
            if *a <= b_ord(*b, *a) && *a != Step::InnerSearchThroughHandle && *b != Step::InnerSearchThroughHandle {
                out.push(c13_pair(*a, *b));
            }
        }
        // every ordered triple over the kinds that end differently
        let core = [Step::SingleOk, Step::TimedOut, Step::AbandonFinished, Step::DirectEarly, Step::EntriesOnlyFull, Step::SearchAll, Step::Paged2, Step::PagedEarly];
        for a in core {
            for b in core {
                for c in core {
                    out.push(c13_seq(&[a, b, c], 1));
                }
            }
        }
    } else {
        out.push(c13_pair(Step::SingleOk, Step::SearchAll));
        out.push(c13_pair(Step::TimedOut, Step::EntriesOnlyFull));
        out.push(c13_pair(Step::Paged2, Step::DirectEarly));
        // two early finishes back to back: their ID releases reach the driver in either order
        out.push(c13_pair(Step::DirectEarly, Step::EntriesOnlyEarly));
    }
    // a stream dropped without finish(): once the server has finished the search nothing is left
    for chain in [Chain::Direct, Chain::EntriesOnly] {
        let mut s = Scenario::new(&format!("C13/stream-dropped-unfinished/{:?}", chain));
        s.clients = vec![client(vec![start("d0", chain), Call::Next, Call::DropStream, single(OpKind::Bind, "after")])];
        s.plans.insert("d0".into(), plan_items(&[E, E]));
        s.select_starts = vec![0, 1];
        s.oracles = Oracles { leak: true, ids: true, route: true, ..Default::default() };
        out.push(s);
    }
    // the caller of a pending operation goes away (its future is dropped) at any moment: once
    // the server has answered, nothing is left of the operation
    for kind in ["single", "search()"] {
        let mut s = Scenario::new(&format!("C13/caller-goes-away/{}", kind));
        let first = if kind == "single" { single(OpKind::Compare, "gone") } else { Call::Search { marker: "gone".into(), timeout: None } };
        s.clients = vec![client(vec![first]), client(vec![single(OpKind::Bind, "other"), single(OpKind::Delete, "other2")])];
        s.plans.insert("gone".into(), plan_items(&[E]));
        s.cancellable = vec![0];
        s.select_starts = vec![0, 1];
        s.oracles = Oracles { leak: true, ids: true, route: true, ..Default::default() };
        out.push(s);
    }
    // a search that has delivered an item is abandoned from another handle while its reader waits
    let mut s = Scenario::new("C13/abandon-in-flight-stream-after-an-item");
    s.clients = vec![
        client(vec![start("victim", Chain::Direct), Call::Next, Call::Next, Call::Finish]),
        client(vec![single(OpKind::Bind, "first"), Call::Abandon(AbTarget::Marker("victim".into())), single(OpKind::Bind, "after")]),
    ];
    s.plans.insert("victim".into(), plan_items(&[E, E, E]));
    s.answer_after_abandon = false;
    s.select_starts = vec![0, 1];
    s.oracles = Oracles { leak: true, ids: true, route: true, term: true, ..Default::default() };
    out.push(s.clone());
    // ... and with the Abandon as the last thing that happens on the connection
    s.name = "C13/abandon-in-flight-stream-after-an-item-then-quiet".into();
    s.clients[1].script.pop();
    out.push(s);
    // the request write stalls, the timeout of the waiting call fires meanwhile (the driver has
    // the operation in hand by then), the write completes later
    for kind in ["start", "single", "search()"] {
        let mut s = Scenario::new(&format!("C13/timeout-while-write-stalls-{}", kind));
        let first = match kind {
            "start" => Call::Start { marker: "w0".into(), chain: Chain::Direct, timeout: Some(10), ctrl: false, opts: false, own_paging: false },
            "single" => tsingle(OpKind::Compare, "w0", 10),
            _ => Call::Search { marker: "w0".into(), timeout: Some(10) },
        };
        s.clients = vec![client(vec![first, single(OpKind::Bind, "after")])];
        s.plans.insert("w0".into(), Plan { silent: true, ..Default::default() });
        s.faults = vec![FaultKind::WritePendingOnce];
        s.fault_budget = 1;
        s.tick_budget = 3;
        s.select_starts = vec![0, 1];
        s.oracles = Oracles { leak: true, ids: true, route: true, ..Default::default() };
        out.push(s);
    }
    out
}

fn b_ord(b: Step, _a: Step) -> Step {
    b
}

impl PartialOrd for Step {
    fn partial_cmp(&self, o: &Step) -> Option<std::cmp::Ordering> {
        (*self as u8).partial_cmp(&(*o as u8))
    }
}

// ------------------------------------------------------------------------------------------ C01 presets
/// small routing scenarios started at ID-codec boundaries (127/128, 255/256, 2^15, 2^16, 2^23, 2^24, 2^31-1 wrap)
pub fn preset_boundaries() -> Vec<i32> {
    vec![126, 254, 32766, 65534, 8388606, 16777214, 2147483645]
}

pub fn c01_presets() -> Vec<Scenario> {
    let mut out = vec![];
    for last in preset_boundaries() {
        let mut s = Scenario::new(&format!("C01/preset-last={}", last));
        s.clients = vec![
            client(vec![single(OpKind::Bind, "a0"), single(OpKind::Delete, "a1")]),
            client(vec![Call::Search { marker: "s0".into(), timeout: None }]),
        ];
        s.plans.insert("s0".into(), plan_items(&[E]));
        s.preset = Some((last, vec![]));
        s.select_starts = vec![0, 1];
        s.oracles = Oracles { route: true, ids: true, leak: true, ..Default::default() };
        out.push(s);
    }
    out
}

// ------------------------------------------------------------------------------------------ C05
pub fn c05(tier: Tier) -> Vec<Scenario> {
    let mut out = vec![];
    let max = i32::MAX;
    let w: [i32; 7] = [max - 2, max - 1, max, 1, 2, 3, 4];
    let lasts: Vec<i32> = w.to_vec();
    let subsets: Vec<u32> = if tier == Tier::Thorough { (0..128).collect() } else { (0..128).filter(|m: &u32| m.count_ones() <= 2 || *m == 127 - 8 || *m % 9 == 0).collect() };
    for last in &lasts {
        for m in &subsets {
            let inuse: Vec<i32> = (0..7).filter(|b| m & (1 << b) != 0).map(|b| w[b as usize]).collect();
            if inuse.len() == 7 {
                continue;
            }
            let mut s = Scenario::new(&format!("C05/window last={} inuse={:?}", last, inuse));
            s.clients = if tier == Tier::Thorough {
                vec![client(vec![single(OpKind::Bind, "a0"), single(OpKind::Compare, "a1")]), client(vec![single(OpKind::Delete, "b0")])]
            } else {
                vec![client(vec![single(OpKind::Bind, "a0"), single(OpKind::Compare, "a1"), single(OpKind::Delete, "a2")])]
            };
            s.preset = Some((*last, inuse));
            s.select_starts = vec![1];
            s.oracles = Oracles { ids: true, route: true, ..Default::default() };
            out.push(s);
        }
    }
    // codec boundaries: the ID the server decodes must be the ID allocated
    for last in preset_boundaries() {
        let mut s = Scenario::new(&format!("C05/boundary last={}", last));
        s.clients = vec![client(vec![single(OpKind::Bind, "a0"), single(OpKind::Compare, "a1")]), client(vec![start("s0", Chain::Direct), Call::Next, Call::Next, Call::Finish])];
        s.plans.insert("s0".into(), plan_items(&[E]));
        s.preset = Some((last, vec![]));
        s.select_starts = vec![1];
        s.oracles = Oracles { ids: true, route: true, ..Default::default() };
        out.push(s);
    }
    // concurrency of starts and completions on several handles, streams kept open
    let mut s = Scenario::new("C05/several-handles");
    s.clients = vec![
        client(vec![single(OpKind::Bind, "a0"), single(OpKind::Bind, "a1")]),
        client(vec![start("s0", Chain::Direct), Call::Next, single(OpKind::Compare, "b1"), Call::Next, Call::Finish]),
    ];
    if tier == Tier::Thorough {
        s.clients.push(client(vec![Call::Search { marker: "s1".into(), timeout: None }, single(OpKind::Delete, "c1")]));
        s.plans.insert("s1".into(), plan_items(&[E]));
    }
    s.plans.insert("s0".into(), plan_items(&[E]));
    s.select_starts = vec![0, 1];
    s.oracles = Oracles { ids: true, route: true, ..Default::default() };
    out.push(s);
    // an Abandon is a request like any other: own fresh ID, also from a fresh clone and while
    // the handle's previous operation is still outstanding
    let mut s = Scenario::new("C05/abandon-ids");
    s.clients = vec![
        client(vec![single(OpKind::Compare, "victim")]),
        client(vec![Call::Abandon(AbTarget::Marker("victim".into())), single(OpKind::Bind, "b1")]),
        client(vec![start("s0", Chain::Direct), Call::Abandon(AbTarget::Fixed(77)), Call::Next, Call::Next, Call::Finish]),
    ];
    s.plans.insert("s0".into(), plan_items(&[E]));
    s.select_starts = vec![1];
    s.oracles = Oracles { ids: true, route: true, ..Default::default() };
    out.push(s);
    // a timed stream runs into its timeout and is then finished (two releases of one ID) while
    // other handles start operations
    let mut s = Scenario::new("C05/stream-timeout-then-finish");
    s.clients = vec![
        client(vec![Call::Start { marker: "ts".into(), chain: Chain::Direct, timeout: Some(10), ctrl: false, opts: false, own_paging: false }, Call::Next, Call::Finish]),
        client(vec![single(OpKind::Compare, "b0")]),
        client(vec![single(OpKind::Compare, "c0")]),
    ];
    s.plans.insert("ts".into(), Plan { silent: true, ..Default::default() });
    s.tick_budget = 2;
    s.select_starts = vec![0, 1];
    s.oracles = Oracles { ids: true, route: true, ..Default::default() };
    out.push(s);
    // callers that go away while their operations are pending; the server answers everything, late
    let mut s = Scenario::new("C05/callers-go-away");
    s.clients = vec![client(vec![single(OpKind::Compare, "g0")]), client(vec![single(OpKind::Compare, "g1")]), client(vec![single(OpKind::Compare, "g2"), single(OpKind::Bind, "g3")])];
    s.cancellable = vec![0, 1];
    s.select_starts = vec![0, 1];
    s.oracles = Oracles { ids: true, route: true, ..Default::default() };
    out.push(s);
    // a paged search next to an operation that times out and is answered late
    let mut s = Scenario::new("C05/paged-next-to-a-timed-out-op");
    s.clients = vec![
        client(vec![start("pg", Chain::Paged(1)), Call::Next, Call::Next, Call::Next, Call::Finish]),
        client(vec![tsingle(OpKind::Compare, "t0", 10), single(OpKind::Compare, "c1")]),
    ];
    s.plans.insert("pg".into(), Plan { total: 2, ..Default::default() });
    s.tick_ms = 10;
    s.tick_budget = 1;
    s.select_starts = vec![1];
    s.oracles = Oracles { ids: true, route: true, ..Default::default() };
    out.push(s);
    // timeouts and abandons free IDs while other operations are outstanding
    let mut s = Scenario::new("C05/timeout-abandon-reuse");
    s.clients = vec![
        client(vec![tsingle(OpKind::Compare, "t0", 10), single(OpKind::Bind, "a1")]),
        client(vec![single(OpKind::Delete, "b0"), Call::Abandon(AbTarget::OwnLast), single(OpKind::Add, "b2")]),
    ];
    s.plans.insert("t0".into(), Plan { silent: true, ..Default::default() });
    s.tick_budget = 2;
    s.select_starts = vec![0, 1];
    s.oracles = Oracles { ids: true, route: true, ..Default::default() };
    out.push(s);
    out
}

// ------------------------------------------------------------------------------------------ C10
fn item_seqs(maxlen: usize) -> Vec<Vec<ItemKind>> {
    let mut out: Vec<Vec<ItemKind>> = vec![vec![]];
    let mut frontier: Vec<Vec<ItemKind>> = vec![vec![]];
    for _ in 0..maxlen {
        let mut next = vec![];
        for s in &frontier {
            for k in [E, R, I] {
                let mut t = s.clone();
                t.push(k);
                next.push(t);
            }
        }
        out.extend(next.iter().cloned());
        frontier = next;
    }
    out
}

pub fn c10(tier: Tier, deep: bool) -> Vec<Scenario> {
    let mut out = vec![];
    let rcs = [0u32, 4, 10, 32];
    let seqs = item_seqs(if deep { 4 } else { tier.pick(2, 3) });
    for (n, seq) in seqs.iter().enumerate() {
        for (ci, chain) in [Chain::Direct, Chain::EntriesOnly].iter().enumerate() {
            let rc_list: Vec<u32> = if tier == Tier::Thorough && seq.len() <= 2 { rcs.to_vec() } else { vec![rcs[(n + ci) % 4]] };
            for rc in rc_list {
                let mut s = Scenario::new(&format!("C10/{:?}/{:?}/rc{}", chain, seq, rc));
                s.clients = vec![ClientSpec { script: vec![start("s", chain.clone())], free: seq.len() as u8 + 3 }];
                s.plans.insert(
                    "s".into(),
                    Plan { rc, items: seq.clone(), item_ctrls: n % 2 == 0, res_ctrls: n % 3 != 1, referral: rc == 10, ..Default::default() },
                );
                s.select_starts = vec![1];
                s.oracles = Oracles { stream: true, route: true, leak: true, ids: true, ..Default::default() };
                out.push(s);
            }
        }
        let rc = rcs[n % 4];
        let mut s = Scenario::new(&format!("C10/search()/{:?}/rc{}", seq, rc));
        s.clients = vec![client(vec![Call::Search { marker: "s".into(), timeout: None }])];
        s.plans.insert("s".into(), Plan { rc, items: seq.clone(), item_ctrls: n % 2 == 1, res_ctrls: n % 3 != 0, referral: rc == 10, ..Default::default() });
        s.select_starts = vec![1];
        s.oracles = Oracles { stream: true, route: true, leak: true, ..Default::default() };
        out.push(s);
    }
    // a failing stream: the connection drops mid-read, then finish() twice
    for chain in [Chain::Direct, Chain::EntriesOnly] {
        let mut s = Scenario::new(&format!("C10/{:?}/failure-then-finish", chain));
        s.clients = vec![ClientSpec { script: vec![start("s", chain), Call::Next], free: 3 }];
        s.plans.insert("s".into(), plan_items(&[R, E, R, E]));
        s.faults = vec![FaultKind::Eof];
        s.fault_budget = 1;
        s.select_starts = vec![1];
        s.oracles = Oracles { stream: true, route: true, ..Default::default() };
        out.push(s);
    }
    // search() when the connection fails before the final result: an error, nothing else
    let mut s = Scenario::new("C10/search()/failure");
    s.clients = vec![client(vec![Call::Search { marker: "s".into(), timeout: None }])];
    s.plans.insert("s".into(), plan_items(&[E, R, E]));
    s.faults = vec![FaultKind::Eof, FaultKind::Garbage];
    s.fault_budget = 1;
    s.select_starts = vec![1];
    s.oracles = Oracles { stream: true, route: true, ..Default::default() };
    out.push(s);
    // reference messages with repeated URIs, a result referral with a repeated and a non-ASCII
    // URI, a non-ASCII base: every URI comes through as sent, in order, none merged
    for chain in [Some(Chain::Direct), Some(Chain::EntriesOnly), None] {
        let mut s = Scenario::new(&format!("C10/{:?}/repeated-and-non-ascii-uris", chain));
        s.clients = vec![match &chain {
            Some(c) => ClientSpec { script: vec![start("sé", c.clone())], free: 6 },
            None => client(vec![Call::Search { marker: "sé".into(), timeout: None }]),
        }];
        s.plans.insert("sé".into(), Plan { items: vec![R, E, R], rc: 10, referral: true, dup_refs: true, ..Default::default() });
        s.select_starts = vec![1];
        s.oracles = Oracles { stream: true, route: true, leak: true, ..Default::default() };
        out.push(s);
    }
    // every frame of the answer carries a controls element that is present but empty (a0 00):
    // legal, and the same items and result come through
    for chain in [Some(Chain::Direct), Some(Chain::EntriesOnly), Some(Chain::Paged(2)), None] {
        for res_ctrls in [false, true] {
            let mut s = Scenario::new(&format!("C10/{:?}/empty-controls-element/res-ctrls={}", chain, res_ctrls));
            s.clients = vec![match &chain {
                Some(c) => ClientSpec { script: vec![start("s", c.clone())], free: 6 },
                None => client(vec![Call::Search { marker: "s".into(), timeout: None }]),
            }];
            let paged = matches!(chain, Some(Chain::Paged(_)));
            s.plans.insert("s".into(), Plan { items: if paged { vec![] } else { vec![E, R, E] }, total: if paged { 3 } else { 0 }, empty_ctrls: true, res_ctrls, ..Default::default() });
            s.select_starts = vec![1];
            s.oracles = Oracles { stream: true, route: true, leak: true, paged, ..Default::default() };
            out.push(s);
        }
    }
    // start() called explicitly on a stream that has been started is a no-op in every state
    for chain in [Chain::Direct, Chain::EntriesOnly] {
        for at in 0..4usize {
            let mut script = vec![start("s", chain.clone()), Call::Next, Call::Next, Call::Finish];
            script.insert(1 + at, Call::ExplicitStart);
            script.extend([Call::Next, Call::Finish]);
            let mut s = Scenario::new(&format!("C10/{:?}/explicit-start-at-{}", chain, at));
            s.clients = vec![client(script)];
            s.plans.insert("s".into(), plan_items(&[E]));
            s.select_starts = vec![1];
            s.oracles = Oracles { stream: true, route: true, leak: true, ..Default::default() };
            out.push(s);
        }
    }
    // what a user-defined adapter sees on the stream after the call up the chain failed
    let mut s = Scenario::new("C10/Probe/failure-seen-inside-the-chain");
    s.clients = vec![ClientSpec { script: vec![start("s", Chain::Probe), Call::Next], free: 3 }];
    s.plans.insert("s".into(), plan_items(&[E, E]));
    s.faults = vec![FaultKind::Eof];
    s.fault_budget = 1;
    s.select_starts = vec![1];
    s.oracles = Oracles { stream: true, route: true, ..Default::default() };
    out.push(s);
    // adapted streams over several pages: references on every page, both adapter orders; the
    // final result's other controls keep the server's order
    for chain in [Chain::Paged(1), Chain::EntriesPaged(1), Chain::PagedEntries(1), Chain::PagedEntries(2)] {
        for extra in [false, true] {
            let mut s = Scenario::new(&format!("C10/{:?}/page-refs/extra-ctrl={}", chain, extra));
            s.clients = vec![ClientSpec { script: vec![start("pg", chain.clone())], free: 8 }];
            s.plans.insert("pg".into(), Plan { total: 2, page_refs: true, res_ctrls: true, extra_res_ctrl: extra, rc: if extra { 4 } else { 0 }, ..Default::default() });
            s.select_starts = vec![1];
            s.oracles = Oracles { stream: true, route: true, leak: true, ids: true, paged: true, ..Default::default() };
            out.push(s);
        }
    }
    // two result controls on a direct stream, search() and a single operation
    let mut s = Scenario::new("C10/two-result-controls");
    s.clients = vec![
        client(vec![start("s", Chain::Direct), Call::Next, Call::Next, Call::Finish, single(OpKind::Compare, "c0")]),
        client(vec![Call::Search { marker: "t".into(), timeout: None }]),
    ];
    for m in ["s", "t", "c0"] {
        s.plans.insert(m.into(), Plan { items: vec![E], res_ctrls: true, extra_res_ctrl: true, ..Default::default() });
    }
    s.select_starts = vec![1];
    s.oracles = Oracles { stream: true, route: true, leak: true, ..Default::default() };
    out.push(s);
    if tier == Tier::Thorough {
        // a second client doing single operations meanwhile
        for chain in [Chain::Direct, Chain::EntriesOnly] {
            let mut s = Scenario::new(&format!("C10/{:?}/with-second-client", chain));
            s.clients = vec![ClientSpec { script: vec![start("s", chain)], free: 5 }, client(vec![single(OpKind::Bind, "b0"), single(OpKind::Delete, "b1")])];
            s.plans.insert("s".into(), Plan { items: vec![E, R], rc: 4, res_ctrls: true, ..Default::default() });
            s.select_starts = vec![1];
            s.oracles = Oracles { stream: true, route: true, leak: true, ids: true, ..Default::default() };
            out.push(s);
        }
    }
    out
}

// ------------------------------------------------------------------------------------------ C16
pub fn c16(tier: Tier, deep: bool) -> Vec<Scenario> {
    let mut out = vec![];
    let extras = ["none", "ctrl", "opts", "timeout"];
    let cookies = [CookieStyle::Distinct, CookieStyle::Constant, CookieStyle::EmptyFirst, CookieStyle::TailLooksEmpty, CookieStyle::WithEstimate];
    let mut k = 0usize;
    for n in 0..=(if deep { 7usize } else { 5 }) {
        for p in 1..=(if deep { 4i32 } else { 3 }) {
            for (ci, ck) in cookies.iter().enumerate() {
                for (xi, extra) in extras.iter().enumerate() {
                    for (hi, chain) in [Chain::Paged(p), Chain::EntriesPaged(p)].iter().enumerate() {
                        k += 1;
                        // quick: a covering subset of the product (every pair (n,p), every cookie style and extra with each chain)
                        if tier == Tier::Quick && (n + p as usize + ci + xi + hi) % 4 != 0 {
                            continue;
                        }
                        let mut s = Scenario::new(&format!("C16/n{}p{}/{:?}/{}/{:?}", n, p, ck, extra, chain));
                        let mut script = vec![Call::Start {
                            marker: "pg".into(),
                            chain: chain.clone(),
                            timeout: if *extra == "timeout" { Some(10) } else { None },
                            ctrl: *extra == "ctrl",
                            opts: *extra == "opts",
                            own_paging: false,
                        }];
                        for _ in 0..=n {
                            script.push(Call::Next);
                        }
                        script.push(Call::Next);
                        script.push(Call::Finish);
                        s.clients = vec![client(script)];
                        s.plans.insert("pg".into(), Plan { total: n, cookie: *ck, res_ctrls: k % 2 == 0, ..Default::default() });
                        s.select_starts = vec![1];
                        if *extra == "timeout" {
                            s.tick_budget = 1;
                        }
                        s.oracles = Oracles { paged: true, stream: true, route: true, leak: true, ids: true, timing: *extra == "timeout", ..Default::default() };
                        out.push(s);
                    }
                }
            }
        }
    }
    // free call plans (early finish at every point)
    for n in 0..=tier.pick(2usize, 4) {
        for p in 1..=2i32 {
            for chain in [Chain::Paged(p), Chain::EntriesPaged(p)] {
                let mut s = Scenario::new(&format!("C16/free/n{}p{}/{:?}", n, p, chain));
                s.clients = vec![ClientSpec { script: vec![start("pg", chain)], free: n as u8 + 3 }];
                s.plans.insert("pg".into(), Plan { total: n, ..Default::default() });
                s.select_starts = vec![1];
                s.oracles = Oracles { paged: true, stream: true, route: true, leak: true, ids: true, ..Default::default() };
                out.push(s);
            }
        }
    }
    // page sizes at the INTEGER encoding boundaries, with and without search options whose size
    // limit is smaller than the page: the control carries exactly the requested size
    for p in [20i32, 127, 128, 129, 255, 256, 32767, 32768, 65536, i32::MAX] {
        for (ci, chain) in [Chain::Paged(p), Chain::EntriesPaged(p), Chain::PagedEntries(p)].into_iter().enumerate() {
            for opts in [false, true] {
                if tier == Tier::Quick && (ci as i64 + p as i64 + opts as i64) % 2 == 0 && p != 128 && p != 20 {
                    continue;
                }
                let mut s = Scenario::new(&format!("C16/page-size-{}/{:?}/opts={}", p, chain, opts));
                s.clients = vec![client(vec![
                    Call::Start { marker: "pg".into(), chain: chain.clone(), timeout: None, ctrl: false, opts, own_paging: false },
                    Call::Next,
                    Call::Next,
                    Call::Next,
                    Call::Finish,
                ])];
                s.plans.insert("pg".into(), Plan { total: 2, ..Default::default() });
                s.select_starts = vec![1];
                s.oracles = Oracles { paged: true, stream: true, route: true, leak: true, ids: true, ..Default::default() };
                out.push(s);
            }
        }
    }
    // cookies whose length sits at a length-form boundary of the cookie itself, of the control
    // value around it, of the control, of the controls element or of the whole follow-up request:
    // the follow-up echoes them octet for octet
    let mut lens: Vec<u32> = (100..=132).chain(236..=260).collect();
    lens.extend([65520u32, 65535, 65536, 65537]);
    if tier == Tier::Thorough {
        lens = (1..=300).chain(65440..=65540).collect();
    }
    for (li, len) in lens.into_iter().enumerate() {
        let chain = [Chain::Paged(1), Chain::EntriesPaged(1), Chain::PagedEntries(1)][li % 3].clone();
        let mut s = Scenario::new(&format!("C16/cookie-of-{}-octets/{:?}", len, chain));
        s.clients = vec![client(vec![
            Call::Start { marker: "pg".into(), chain, timeout: None, ctrl: li % 2 == 1, opts: li % 4 == 2, own_paging: false },
            Call::Next,
            Call::Next,
            Call::Next,
            Call::Next,
            Call::Finish,
        ])];
        s.plans.insert("pg".into(), Plan { total: 3, cookie: CookieStyle::Long(len), ..Default::default() });
        s.select_starts = vec![1];
        s.oracles = Oracles { paged: true, stream: true, route: true, leak: true, ..Default::default() };
        out.push(s);
    }
    // every page (also the non-final ones) ends with a non-zero result code; size estimates beyond 31 bits
    for (rc, ck) in [(4u32, CookieStyle::Distinct), (11, CookieStyle::Constant), (0, CookieStyle::HugeEstimate), (4, CookieStyle::HugeEstimate)] {
        for chain in [Chain::Paged(1), Chain::EntriesPaged(2), Chain::PagedEntries(1)] {
            let mut s = Scenario::new(&format!("C16/rc{}-on-every-page/{:?}/{:?}", rc, ck, chain));
            s.clients = vec![ClientSpec { script: vec![start("pg", chain)], free: 7 }];
            s.plans.insert("pg".into(), Plan { total: 4, rc, cookie: ck, res_ctrls: true, ..Default::default() });
            s.select_starts = vec![1];
            s.oracles = Oracles { paged: true, stream: true, route: true, leak: true, ids: true, ..Default::default() };
            out.push(s);
        }
    }
    // the pager outermost, EntriesOnly inside; references on every page
    for n in 0..=tier.pick(3usize, 5) {
        for p in 1..=2i32 {
            for refs in [false, true] {
                let mut s = Scenario::new(&format!("C16/pager-outermost/n{}p{}/refs={}", n, p, refs));
                s.clients = vec![ClientSpec { script: vec![start("pg", Chain::PagedEntries(p))], free: n as u8 + 3 }];
                s.plans.insert("pg".into(), Plan { total: n, page_refs: refs, cookie: if n % 2 == 0 { CookieStyle::TailLooksEmpty } else { CookieStyle::Distinct }, ..Default::default() });
                s.select_starts = vec![1];
                s.oracles = Oracles { paged: true, stream: true, route: true, leak: true, ids: true, ..Default::default() };
                out.push(s);
            }
        }
    }
    // a caller-supplied paging control must be refused at start
    for chain in [Chain::Paged(2), Chain::EntriesPaged(2), Chain::PagedEntries(2)] {
        let mut s = Scenario::new(&format!("C16/own-paging-control/{:?}", chain));
        s.clients = vec![client(vec![
            Call::Start { marker: "pg".into(), chain, timeout: None, ctrl: true, opts: false, own_paging: true },
            single(OpKind::Bind, "after"),
        ])];
        s.plans.insert("pg".into(), Plan { total: 2, ..Default::default() });
        s.select_starts = vec![1];
        s.oracles = Oracles { paged: true, route: true, leak: true, ..Default::default() };
        out.push(s);
    }
    for order in 0..4u8 {
        for chain in [Chain::Paged(2), Chain::EntriesPaged(2)] {
            let mut s = Scenario::new(&format!("C16/own-paging-control-position{}/{:?}", order, chain));
            s.clients = vec![client(vec![Call::StartOwnPaging { marker: "pg".into(), chain, order }, single(OpKind::Bind, "after")])];
            s.plans.insert("pg".into(), Plan { total: 2, ..Default::default() });
            s.select_starts = vec![1];
            s.oracles = Oracles { paged: true, route: true, leak: true, ..Default::default() };
            out.push(s);
        }
    }
    // two paged searches at once on two handles
    let mut s = Scenario::new("C16/two-paged-concurrently");
    s.clients = vec![
        client(vec![start("pa", Chain::Paged(1)), Call::Next, Call::Next, Call::Next, Call::Finish]),
        client(vec![start("pb", Chain::EntriesPaged(2)), Call::Next, Call::Next, Call::Next, Call::Next, Call::Finish]),
    ];
    s.plans.insert("pa".into(), Plan { total: 2, ..Default::default() });
    s.plans.insert("pb".into(), Plan { total: 3, cookie: CookieStyle::Constant, ..Default::default() });
    s.select_starts = vec![1];
    s.oracles = Oracles { paged: true, stream: true, route: true, leak: true, ids: true, ..Default::default() };
    if tier == Tier::Thorough {
        out.push(s);
    }
    out
}

// ------------------------------------------------------------------------------------------ C12
pub fn c12(tier: Tier) -> Vec<Scenario> {
    let mut out = vec![];
    let o = Oracles { timing: true, route: true, leak: true, ids: true, term: false, ..Default::default() };
    // timed single op; the server may answer at any moment (before, at, after the deadline)
    for kind in [OpKind::Bind, OpKind::Extended] {
        let mut s = Scenario::new(&format!("C12/timed-single-{:?}", kind));
        s.clients = vec![client(vec![tsingle(kind, "t0", 10)])];
        s.tick_budget = 3;
        s.oracles = o.clone();
        out.push(s);
    }
    // never answered: must time out, then later operations work and nothing is left behind
    let mut s = Scenario::new("C12/timed-silent-then-two-more");
    s.clients = vec![client(vec![tsingle(OpKind::Compare, "t0", 10), single(OpKind::Bind, "a1"), single(OpKind::Delete, "a2")])];
    s.plans.insert("t0".into(), Plan { silent: true, ..Default::default() });
    s.tick_budget = 3;
    s.oracles = o.clone();
    out.push(s);
    // after an operation has timed out, an untimed one on the same handle waits as long as it
    // takes: the spent timeout is gone from the handle (longer than the old timeout, here)
    for first in ["single", "search()", "stream"] {
        let mut s = Scenario::new(&format!("C12/untimed-after-a-timed-out-{}", first));
        s.clients = vec![client(match first {
            "single" => vec![tsingle(OpKind::Compare, "t0", 10), single(OpKind::Bind, "a1"), single(OpKind::Delete, "a2")],
            "search()" => vec![Call::Search { marker: "t0".into(), timeout: Some(10) }, single(OpKind::Bind, "a1"), Call::Search { marker: "a2".into(), timeout: None }],
            _ => vec![
                Call::Start { marker: "t0".into(), chain: Chain::Direct, timeout: Some(10), ctrl: false, opts: false, own_paging: false },
                Call::Next,
                Call::Finish,
                single(OpKind::Bind, "a1"),
                start("a2", Chain::Direct),
                Call::Next,
                Call::Finish,
            ],
        })];
        s.plans.insert("t0".into(), Plan { silent: true, ..Default::default() });
        s.tick_ms = 10;
        s.tick_budget = 4;
        s.select_starts = vec![0, 1];
        s.oracles = o.clone();
        out.push(s);
    }
    // timed + untimed on two handles, late reply allowed for the timed-out one
    let mut s = Scenario::new("C12/timed+untimed-two-handles");
    s.clients = vec![client(vec![tsingle(OpKind::Compare, "t0", 10), single(OpKind::Bind, "a1")]), client(vec![single(OpKind::Delete, "b0")])];
    s.tick_budget = 2;
    s.oracles = o.clone();
    out.push(s);
    // timed stream with two items: the deadline is per next() call
    for chain in [Chain::Direct, Chain::EntriesOnly] {
        let mut s = Scenario::new(&format!("C12/timed-stream-{:?}", chain));
        s.clients = vec![client(vec![
            Call::Start { marker: "s".into(), chain, timeout: Some(10), ctrl: false, opts: false, own_paging: false },
            Call::Next,
            Call::Next,
            Call::Next,
            Call::Finish,
            single(OpKind::Bind, "after"),
        ])];
        s.plans.insert("s".into(), plan_items(&[E, E]));
        s.tick_budget = tier.pick(3, 4);
        s.select_starts = vec![0, 1];
        s.oracles = o.clone();
        out.push(s);
    }
    // search() with a timeout: timer restarts with every item
    let mut s = Scenario::new("C12/timed-search()");
    s.clients = vec![client(vec![Call::Search { marker: "s".into(), timeout: Some(10) }, single(OpKind::Bind, "after")])];
    s.plans.insert("s".into(), plan_items(&[E, E]));
    s.tick_budget = tier.pick(3, 4);
    s.select_starts = vec![0, 1];
    s.oracles = o.clone();
    out.push(s);
    // a timeout set on a search must not leak to the following operation on the handle, and vice versa
    let mut s = Scenario::new("C12/timeout-does-not-stick");
    s.clients = vec![client(vec![
        Call::Start { marker: "s".into(), chain: Chain::Direct, timeout: Some(10), ctrl: false, opts: false, own_paging: false },
        Call::Next,
        Call::Finish,
        single(OpKind::Delete, "untimed"),
    ])];
    s.plans.insert("s".into(), plan_items(&[]));
    s.tick_budget = 3;
    s.select_starts = vec![1];
    s.oracles = o.clone();
    out.push(s);
    // the search's own time limit (SearchOptions, seconds, for the server) has nothing to do
    // with the client-side timeout
    for chain in [Chain::Direct, Chain::EntriesOnly] {
        let mut s = Scenario::new(&format!("C12/timed-stream-with-search-options-{:?}", chain));
        s.clients = vec![client(vec![
            Call::Start { marker: "so".into(), chain, timeout: Some(10), ctrl: false, opts: true, own_paging: false },
            Call::Next,
            Call::Finish,
            single(OpKind::Bind, "after"),
        ])];
        s.plans.insert("so".into(), Plan { silent: true, ..Default::default() });
        s.tick_budget = 3;
        s.select_starts = vec![1];
        s.oracles = o.clone();
        out.push(s);
    }
    // the largest timeout there is (Duration::MAX): the operation simply completes
    let mut s = Scenario::new("C12/timeout-duration-max");
    s.clients = vec![client(vec![
        tsingle(OpKind::Compare, "t0", u64::MAX),
        Call::Search { marker: "s".into(), timeout: Some(u64::MAX) },
        Call::Start { marker: "d".into(), chain: Chain::Direct, timeout: Some(u64::MAX), ctrl: false, opts: false, own_paging: false },
        Call::Next,
        Call::Next,
        Call::Finish,
    ])];
    s.plans.insert("s".into(), plan_items(&[E]));
    s.plans.insert("d".into(), plan_items(&[E]));
    s.tick_budget = 1;
    s.select_starts = vec![1];
    s.oracles = o.clone();
    out.push(s);
    // after a timeout the handle keeps working: abandoning the timed-out ID, then another operation
    let mut s = Scenario::new("C12/abandon-after-timeout");
    s.clients = vec![client(vec![tsingle(OpKind::Compare, "t0", 10), Call::Abandon(AbTarget::OwnLast), single(OpKind::Bind, "after")])];
    s.plans.insert("t0".into(), Plan { silent: true, ..Default::default() });
    s.tick_budget = 3;
    s.select_starts = vec![0, 1];
    s.oracles = o.clone();
    out.push(s);
    // a timed search through PagedResults against a silent server: next() must time out
    for chain in [Chain::Paged(1), Chain::EntriesPaged(2)] {
        let mut s = Scenario::new(&format!("C12/timed-paged-silent-{:?}", chain));
        s.clients = vec![client(vec![
            Call::Start { marker: "pgs".into(), chain, timeout: Some(10), ctrl: false, opts: false, own_paging: false },
            Call::Next,
            Call::Finish,
            single(OpKind::Bind, "after"),
        ])];
        s.plans.insert("pgs".into(), Plan { silent: true, total: 2, ..Default::default() });
        s.tick_budget = 3;
        s.select_starts = vec![1];
        s.oracles = o.clone();
        out.push(s);
    }
    // page 1 is answered, page 2 never: the follow-up search must time out as well
    let mut s = Scenario::new("C12/timed-paged-second-page-silent");
    s.clients = vec![client(vec![
        Call::Start { marker: "pg2".into(), chain: Chain::Paged(1), timeout: Some(10), ctrl: false, opts: false, own_paging: false },
        Call::Next,
        Call::Next,
        Call::Finish,
    ])];
    s.plans.insert("pg2".into(), Plan { total: 2, silent_after_pages: 1, ..Default::default() });
    s.tick_budget = 3;
    s.select_starts = vec![1];
    s.oracles = o.clone();
    out.push(s);
    if tier == Tier::Thorough {
        // three handles: timed stream, timed single, untimed single, late replies allowed
        let mut s = Scenario::new("C12/three-handles");
        s.clients = vec![
            client(vec![
                Call::Start { marker: "s".into(), chain: Chain::EntriesOnly, timeout: Some(10), ctrl: false, opts: false, own_paging: false },
                Call::Next,
                Call::Finish,
            ]),
            client(vec![tsingle(OpKind::Compare, "t0", 10)]),
            client(vec![single(OpKind::Delete, "b0")]),
        ];
        s.plans.insert("s".into(), plan_items(&[E]));
        s.tick_budget = 2;
        s.select_starts = vec![1];
        s.oracles = o.clone();
        out.push(s);
        let mut s = Scenario::new("C12/two-timed-different-timeouts");
        s.clients = vec![client(vec![tsingle(OpKind::Compare, "t0", 10)]), client(vec![tsingle(OpKind::Bind, "t1", 20), single(OpKind::Delete, "b1")])];
        s.plans.insert("t0".into(), Plan { silent: true, ..Default::default() });
        s.tick_budget = 5;
        s.oracles = o.clone();
        out.push(s);
        let mut s = Scenario::new("C12/timed-paged");
        s.clients = vec![client(vec![
            Call::Start { marker: "pg".into(), chain: Chain::Paged(1), timeout: Some(10), ctrl: false, opts: false, own_paging: false },
            Call::Next,
            Call::Next,
            Call::Next,
            Call::Finish,
        ])];
        s.plans.insert("pg".into(), Plan { total: 2, ..Default::default() });
        s.tick_budget = 3;
        s.select_starts = vec![1];
        s.oracles = o.clone();
        out.push(s);
    }
    out
}

// ------------------------------------------------------------------------------------------ C04
pub fn c04(tier: Tier) -> Vec<Scenario> {
    let mut out = vec![];
    let o = Oracles { term: true, route: true, ..Default::default() };
    let read_faults = vec![FaultKind::Eof, FaultKind::Reset, FaultKind::Garbage, FaultKind::ShortGarbage, FaultKind::InnerOverrun, FaultKind::WideId, FaultKind::BadResultTail];
    let write_faults = vec![FaultKind::WriteErr, FaultKind::WritePartial(3), FaultKind::WritePendingOnce];
    let mut all = read_faults.clone();
    all.extend(write_faults.clone());

    let mut s = Scenario::new("C04/one-single+post-fault-call");
    s.clients = vec![client(vec![single(OpKind::Bind, "a0"), single(OpKind::Delete, "a1")])];
    s.faults = all.clone();
    s.fault_budget = 1;
    s.oracles = o.clone();
    out.push(s);

    // an Unbind (and a search start) on a connection that is already gone fail at once
    let mut s = Scenario::new("C04/one-single+post-fault-unbind");
    s.clients = vec![client(vec![single(OpKind::Bind, "a0"), Call::Unbind]), client(vec![single(OpKind::Compare, "b0"), start("s", Chain::Direct)])];
    s.faults = all.clone();
    s.fault_budget = 1;
    s.select_starts = vec![1];
    s.oracles = o.clone();
    out.push(s);

    let mut s = Scenario::new("C04/two-singles");
    s.clients = vec![client(vec![single(OpKind::Bind, "a0")]), client(vec![single(OpKind::Compare, "b0"), single(OpKind::Add, "b1")])];
    s.faults = all.clone();
    s.fault_budget = 1;
    s.select_starts = vec![0, 1, 3];
    s.oracles = o.clone();
    out.push(s);

    let mut s = Scenario::new("C04/single+stream-mid-read");
    s.clients = vec![
        client(vec![single(OpKind::Modify, "a0"), single(OpKind::Bind, "a1")]),
        client(vec![start("s", Chain::Direct), Call::Next, Call::Next, Call::Next, Call::Finish]),
    ];
    s.plans.insert("s".into(), plan_items(&[E, E]));
    s.faults = if tier == Tier::Thorough { all.clone() } else { vec![FaultKind::Eof, FaultKind::Garbage, FaultKind::ShortGarbage, FaultKind::InnerOverrun, FaultKind::BadResultTail, FaultKind::WriteErr] };
    s.fault_budget = 1;
    s.select_starts = vec![1, 3];
    s.oracles = o.clone();
    out.push(s);

    let mut s = Scenario::new("C04/stream+search()");
    s.clients = vec![
        client(vec![start("s", Chain::EntriesOnly), Call::Next, Call::Next, Call::Finish]),
        client(vec![Call::Search { marker: "t".into(), timeout: None }]),
    ];
    s.plans.insert("s".into(), plan_items(&[E]));
    s.plans.insert("t".into(), plan_items(&[E, R]));
    s.faults = if tier == Tier::Thorough { all.clone() } else { vec![FaultKind::Reset, FaultKind::WritePartial(3)] };
    s.fault_budget = 1;
    s.select_starts = vec![1, 3];
    s.oracles = o.clone();
    out.push(s);

    // byte level: EOF / reset after every byte of the response stream
    let mut s = Scenario::new("C04/bytes-single+search()");
    s.clients = vec![client(vec![single(OpKind::Bind, "a")]), client(vec![Call::Search { marker: "s".into(), timeout: None }])];
    s.plans.insert("s".into(), plan_items(&[E]));
    s.byte_mode = true;
    s.net_steps = vec![NetStep::One, NetStep::All];
    s.faults = vec![FaultKind::Eof, FaultKind::Reset];
    s.fault_budget = 1;
    s.select_starts = vec![3];
    s.oracles = o.clone();
    out.push(s);

    // write faults at every byte of a request
    for n in 0..tier.pick(8usize, 24) {
        let mut s = Scenario::new(&format!("C04/write-fails-after-{}-bytes", n));
        s.clients = vec![client(vec![single(OpKind::Bind, "a0")]), client(vec![single(OpKind::Compare, "b0")])];
        s.faults = vec![FaultKind::WritePartial(n)];
        s.fault_budget = 1;
        s.select_starts = vec![1];
        s.oracles = o.clone();
        out.push(s);
    }

    // the write side fails while operations wait for a server that stays silent; the first
    // write after the failure is an Abandon / a second request
    for third in ["abandon", "single"] {
        let mut s = Scenario::new(&format!("C04/write-fault-with-silent-server-{}", third));
        s.clients = vec![
            client(vec![single(OpKind::Compare, "q0")]),
            client(vec![single(OpKind::Delete, "q1")]),
            client(vec![if third == "abandon" { Call::Abandon(AbTarget::Marker("q1".into())) } else { single(OpKind::Bind, "q2") }]),
        ];
        for m in ["q0", "q1", "q2"] {
            s.plans.insert(m.into(), Plan { silent: true, ..Default::default() });
        }
        s.faults = vec![FaultKind::WriteErr, FaultKind::WritePartial(2)];
        s.fault_budget = 1;
        s.select_starts = vec![1];
        s.oracles = o.clone();
        out.push(s);
    }

    if tier == Tier::Thorough {
        // two faults in one run
        let mut s = Scenario::new("C04/two-faults");
        s.clients = vec![client(vec![single(OpKind::Bind, "a0"), single(OpKind::Delete, "a1")]), client(vec![Call::Search { marker: "s".into(), timeout: None }])];
        s.plans.insert("s".into(), plan_items(&[E]));
        s.faults = vec![FaultKind::WritePendingOnce, FaultKind::WritePartial(5), FaultKind::Eof, FaultKind::Garbage];
        s.fault_budget = 2;
        s.select_starts = vec![1, 3];
        s.oracles = o.clone();
        out.push(s);
        // three handles, every fault kind at every state
        let mut s = Scenario::new("C04/three-handles");
        s.clients = vec![
            client(vec![single(OpKind::Compare, "a0")]),
            client(vec![start("s", Chain::EntriesOnly), Call::Next, Call::Next, Call::Finish, single(OpKind::Bind, "b1")]),
            client(vec![Call::Search { marker: "t".into(), timeout: None }]),
        ];
        s.plans.insert("s".into(), plan_items(&[E]));
        s.plans.insert("t".into(), plan_items(&[R, E]));
        s.faults = all.clone();
        s.fault_budget = 1;
        s.select_starts = vec![1, 3];
        s.oracles = o.clone();
        out.push(s);
        // paged search interrupted at every state
        let mut s = Scenario::new("C04/paged-interrupted");
        s.clients = vec![client(vec![start("pg", Chain::EntriesPaged(1)), Call::Next, Call::Next, Call::Next, Call::Finish])];
        s.plans.insert("pg".into(), Plan { total: 2, ..Default::default() });
        s.faults = all.clone();
        s.fault_budget = 1;
        s.select_starts = vec![1, 3];
        s.oracles = o.clone();
        out.push(s);
    }

    // the server announces the disconnection (unsolicited notification, ID 0) and closes: the
    // pending work fails, nobody is handed the notice as if it were their response
    let mut s = Scenario::new("C04/notice-of-disconnection-then-close");
    s.clients = vec![
        client(vec![single(OpKind::Bind, "a0")]),
        client(vec![start("s", Chain::Direct), Call::Next, Call::Next, Call::Finish]),
        client(vec![Call::Search { marker: "t".into(), timeout: None }]),
    ];
    s.plans.insert("a0".into(), Plan { silent: true, ..Default::default() });
    s.plans.insert("s".into(), Plan { silent: true, ..Default::default() });
    s.plans.insert("t".into(), Plan { silent: true, ..Default::default() });
    s.bogus = vec![BogusKind::Zero];
    s.faults = vec![FaultKind::Eof];
    s.fault_budget = 1;
    s.select_starts = vec![1, 3];
    s.oracles = o.clone();
    out.push(s);

    // unbind by another handle while operations are pending
    let mut s = Scenario::new("C04/unbind-while-pending");
    s.clients = vec![
        client(vec![single(OpKind::Bind, "a0"), single(OpKind::Delete, "a1")]),
        client(vec![Call::Unbind, single(OpKind::Compare, "b1")]),
        client(vec![start("s", Chain::Direct), Call::Next, Call::Next, Call::Finish]),
    ];
    s.plans.insert("s".into(), plan_items(&[E]));
    s.select_starts = vec![1, 3];
    s.oracles = o.clone();
    out.push(s);

    // a server that keeps its side open after the UnbindRequest: the client must still shut the transport down
    let mut s = Scenario::new("C04/unbind-server-keeps-open");
    s.clients = vec![client(vec![single(OpKind::Bind, "a0"), Call::Unbind])];
    s.server_closes_on_unbind = false;
    s.select_starts = vec![1, 3];
    s.oracles = o.clone();
    out.push(s);

    // dropping the last handle closes the connection
    let mut s = Scenario::new("C04/drop-all-handles");
    s.clients = vec![client(vec![single(OpKind::Bind, "a0")]), client(vec![start("s", Chain::Direct), Call::Next, Call::Next, Call::Finish])];
    s.plans.insert("s".into(), plan_items(&[E]));
    s.drop_all = true;
    s.select_starts = vec![0, 1, 2, 3];
    s.oracles = o.clone();
    out.push(s);

    let mut s = Scenario::new("C04/drop-handle-with-op-pending");
    s.clients = vec![client(vec![single(OpKind::Bind, "a0"), Call::DropHandle]), client(vec![Call::DropHandle])];
    s.drop_all = true;
    s.select_starts = vec![0, 1, 2, 3];
    s.oracles = o;
    out.push(s);
    out
}


// ------------------------------------------------------------------------------------------ long runs
use super::model::Policy;

const KINDS7: [OpKind; 7] = [OpKind::Bind, OpKind::Compare, OpKind::Delete, OpKind::Extended, OpKind::Add, OpKind::Modify, OpKind::ModDn];

fn nexts(n: usize) -> Vec<Call> {
    std::iter::repeat(Call::Next).take(n).collect()
}

/// Scenarios far beyond what the search can enumerate, each executed once under a fixed
/// scheduling policy (see `model::run_canonical`): counts and sizes past every small bound.
pub fn long_runs(prop: &str) -> Vec<(Scenario, Policy)> {
    let mut out: Vec<(Scenario, Policy)> = vec![];
    let full = Oracles { route: true, ids: true, leak: true, stream: true, ..Default::default() };
    match prop {
        "C01" | "C05" | "C13" => {
            // a long life of one handle: 1000 single operations of every kind, one after the other
            let mut s = Scenario::new(&format!("{}/long/1000-single-ops", prop));
            s.clients = vec![client((0..1000).map(|k| single(KINDS7[k % 7].clone(), &format!("o{}", k))).collect())];
            for k in (0..1000).step_by(13) {
                s.plans.insert(format!("o{}", k), Plan { rc: (k % 90) as u32, res_ctrls: k % 2 == 0, ..Default::default() });
            }
            s.oracles = full.clone();
            out.push((s, Policy::Eager));
            // many handles with an operation in flight at the same time
            for n in [8usize, 40, 130] {
                let mut s = Scenario::new(&format!("{}/long/{}-handles-in-flight", prop, n));
                s.clients = (0..n).map(|k| client(vec![single(KINDS7[k % 7].clone(), &format!("h{}a", k)), single(KINDS7[(k + 3) % 7].clone(), &format!("h{}b", k))])).collect();
                s.oracles = full.clone();
                out.push((s.clone(), Policy::ClientsFirst));
                if n == 8 {
                    out.push((s, Policy::ServerFirst));
                }
            }
            // many searches given up early, one after the other (late items keep arriving), then more work
            for n in [20usize, 40, 300] {
                let mut s = Scenario::new(&format!("{}/long/{}-searches-finished-early", prop, n));
                let mut script = vec![];
                for k in 0..n {
                    script.extend([start(&format!("e{}", k), if k % 2 == 0 { Chain::Direct } else { Chain::EntriesOnly }), Call::Next, Call::Finish]);
                    s.plans.insert(format!("e{}", k), plan_items(&[E, E, R]));
                }
                script.push(single(OpKind::Delete, "after"));
                script.push(Call::Search { marker: "after-s".into(), timeout: None });
                s.plans.insert("after-s".into(), plan_items(&[E]));
                s.clients = vec![client(script)];
                s.oracles = full.clone();
                out.push((s.clone(), Policy::Eager));
                out.push((s, Policy::ServerFirst));
            }
        }
        _ => {}
    }
    match prop {
        "C01" | "C10" | "C04" => {
            // long streams: 1500 items, read as they come or only after all have arrived
            for chain in [Some(Chain::Direct), Some(Chain::EntriesOnly), None] {
                for n in [100usize, 1500] {
                    let mut s = Scenario::new(&format!("{}/long/{}-items/{:?}", prop, n, chain));
                    let mut script = match &chain {
                        Some(c) => {
                            let mut v = vec![start("big", c.clone())];
                            v.extend(nexts(n + 1));
                            v.push(Call::Finish);
                            v
                        }
                        None => vec![Call::Search { marker: "big".into(), timeout: None }],
                    };
                    script.push(single(OpKind::Compare, "after"));
                    s.clients = vec![client(script), client(vec![single(OpKind::Bind, "other")])];
                    s.plans.insert("big".into(), Plan { many_items: n, rc: 4, res_ctrls: true, ..Default::default() });
                    s.oracles = full.clone();
                    out.push((s.clone(), Policy::Eager));
                    out.push((s, Policy::ServerFirst));
                }
            }
            // entries of 9000 / 20000 / 70000 octets and entries with 100 values, other traffic right behind
            for (vs, nv) in [(9000usize, 0usize), (20000, 0), (70000, 0), (0, 100), (1000, 300)] {
                let mut s = Scenario::new(&format!("{}/long/entries-value{}-values{}", prop, vs, nv));
                s.clients = vec![
                    client(vec![start("s", Chain::Direct), Call::Next, Call::Next, Call::Next, Call::Finish]),
                    client(vec![single(OpKind::Compare, "c0"), Call::Search { marker: "t".into(), timeout: None }]),
                ];
                s.plans.insert("s".into(), Plan { items: vec![E, E], entry_value_size: vs, entry_values: nv, ..Default::default() });
                s.plans.insert("t".into(), Plan { items: vec![E], entry_value_size: vs, entry_values: nv, ..Default::default() });
                s.oracles = Oracles { route: true, ids: true, stream: true, ..Default::default() };
                out.push((s.clone(), Policy::ServerFirst));
                out.push((s, Policy::ClientsFirst));
            }
        }
        _ => {}
    }
    if prop == "C10" {
        // search() with search options whose size limit the server reports as exceeded
        let mut s = Scenario::new("C10/long/search()-size-limit-reached");
        s.clients = vec![client(vec![Call::SearchOpts { marker: "lim".into() }, Call::SearchOpts { marker: "lim2".into() }])];
        s.plans.insert("lim".into(), Plan { items: vec![E; 11], rc: 4, res_ctrls: true, ..Default::default() });
        s.plans.insert("lim2".into(), Plan { items: vec![E, E, R, E, E, E, E, E, E, E, E, E, R], rc: 0, ..Default::default() });
        s.oracles = full.clone();
        out.push((s, Policy::Eager));
    }
    if prop == "C04" {
        // an unread stream with 1500 items queued, another operation pending, then the server closes
        for policy in [Policy::ServerFirst, Policy::Eager] {
            let mut s = Scenario::new("C04/long/unread-stream+pending-op+close");
            s.clients = vec![client(vec![start("big", Chain::Direct)]), client(vec![single(OpKind::Compare, "q"), single(OpKind::Bind, "later")])];
            s.plans.insert("big".into(), Plan { many_items: 1500, ..Default::default() });
            s.plans.insert("q".into(), Plan { silent: true, ..Default::default() });
            s.faults = vec![FaultKind::Eof];
            s.fault_budget = 1;
            s.oracles = Oracles { term: true, route: true, ..Default::default() };
            out.push((s, policy));
        }
        // 130 operations in flight when the connection is lost; every handle then tries once more
        let mut s = Scenario::new("C04/long/130-ops-in-flight+close");
        s.clients = (0..130).map(|k| client(vec![single(KINDS7[k % 7].clone(), &format!("q{}", k)), single(OpKind::Bind, &format!("r{}", k))])).collect();
        for k in 0..130 {
            s.plans.insert(format!("q{}", k), Plan { silent: true, ..Default::default() });
        }
        s.faults = vec![FaultKind::Eof];
        s.fault_budget = 1;
        s.oracles = Oracles { term: true, route: true, ..Default::default() };
        out.push((s.clone(), Policy::ClientsFirst));
        s.faults = vec![FaultKind::Reset];
        s.name = "C04/long/130-ops-in-flight+reset".into();
        out.push((s, Policy::ClientsFirst));
    }
    if prop == "C12" {
        let o = Oracles { timing: true, route: true, leak: true, ids: true, ..Default::default() };
        // a search times out; the server then delivers the rest of a large result late; later work goes on
        for n in [300usize, 1000] {
            let mut s = Scenario::new(&format!("C12/long/{}-late-frames-after-a-timeout", n));
            s.clients = vec![client(vec![
                Call::Start { marker: "slow".into(), chain: Chain::Direct, timeout: Some(10), ctrl: false, opts: false, own_paging: false },
                Call::Next,
                Call::Finish,
                single(OpKind::Delete, "after"),
                tsingle(OpKind::Compare, "after2", 10),
            ])];
            s.plans.insert("slow".into(), Plan { many_items: n, ..Default::default() });
            s.tick_budget = 2;
            s.oracles = o.clone();
            out.push((s, Policy::ClockFirst));
        }
        // exactly as many entries as the size limit, then silence: the per-item timer still runs
        let mut s = Scenario::new("C12/long/size-limit-entries-then-silence");
        let mut script = vec![Call::Start { marker: "lim".into(), chain: Chain::Direct, timeout: Some(10), ctrl: false, opts: true, own_paging: false }];
        script.extend(nexts(12));
        script.push(Call::Finish);
        script.push(single(OpKind::Bind, "after"));
        s.clients = vec![client(script)];
        s.plans.insert("lim".into(), Plan { items: vec![E; 11], no_done: true, ..Default::default() });
        s.tick_budget = 3;
        s.oracles = o.clone();
        out.push((s, Policy::Eager));
        // timeouts far beyond 32 bits of milliseconds
        for t in [(1u64 << 32) + 200, (1u64 << 33) + 5, 86_400_000 * 50] {
            let mut s = Scenario::new(&format!("C12/long/timeout-{}ms", t));
            s.clients = vec![client(vec![tsingle(OpKind::Compare, "t0", t), Call::Search { marker: "s".into(), timeout: Some(t) }])];
            s.plans.insert("s".into(), plan_items(&[E]));
            s.tick_ms = 100;
            s.tick_budget = 4;
            s.oracles = o.clone();
            out.push((s, Policy::ClockFirst));
        }
    }
    if prop == "C13" {
        for (st, n) in [(Step::TimedOut, 40usize), (Step::SearchAllTimedOut, 40), (Step::PagedEarly, 40), (Step::AbandonFinished, 40), (Step::StreamTimedOutFinish, 40), (Step::ThroughStreamHandle, 40), (Step::DirectEarly, 300)] {
            let mut s = c13_seq(&[st], n);
            s.name = format!("C13/long/{:?}x{}", st, n);
            out.push((s, Policy::Eager));
        }
    }
    if prop == "C16" {
        for (n, p, chain) in [(300usize, 1i32, Chain::Paged(1)), (300, 1, Chain::EntriesPaged(1)), (257, 1, Chain::PagedEntries(1)), (1000, 3, Chain::Paged(3)), (5000, 1000, Chain::Paged(1000))] {
            let mut s = Scenario::new(&format!("C16/long/{}-entries-pages-of-{}/{:?}", n, p, chain));
            let mut script = vec![start("pg", chain)];
            script.extend(nexts(n + 1));
            script.push(Call::Finish);
            s.clients = vec![client(script)];
            s.plans.insert("pg".into(), Plan { total: n, cookie: CookieStyle::Constant, res_ctrls: true, ..Default::default() });
            s.oracles = Oracles { paged: true, stream: true, route: true, leak: true, ids: true, ..Default::default() };
            out.push((s, Policy::Eager));
        }
    }
    out
}
