//! One execution of the real connection under the checker's scheduler, clock, transport and
//! select! random source; plus the scripted server model and the per-state oracles.

use super::memio::{IoInner, MemIo, WMode};
use super::types::*;
use crate::vcore::ber::{self, Tlv, CTX, UNI};
use crate::vcore::msg::{self, Ctl, Msg, Op, Res};

use ldap3::adapters::{Adapter, EntriesOnly, PagedResults};
use ldap3::controls::{Control, RawControl};
use ldap3::exop::Exop;
use ldap3::{Ldap, LdapConnAsync, LdapError, LdapResult, Mod, ResultEntry, Scope, SearchOptions, SearchStream};

use std::cell::Cell;
use std::collections::{BTreeMap, BTreeSet, HashSet};
use std::future::Future;
use std::pin::Pin;
use std::sync::atomic::{AtomicBool, Ordering};
use std::sync::{Arc, Mutex};
use std::task::{Context, Poll, Wake, Waker};
use std::time::Duration;

pub const PAGED_OID: &str = "1.2.840.113556.1.4.319";
pub const CALLER_CTL_OID: &str = "1.1.1";
pub const ITEM_CTL_OID: &str = "1.2.3.5";
pub const RES_CTL_OID: &str = "1.2.3.4";
pub const EXTRA_CTL_OID: &str = "1.2.3.6";

type Stream = SearchStream<'static, String, Vec<String>>;

/// A user-defined adapter (public `Adapter` trait): passes `left` items through, then fails.
#[derive(Clone, Debug)]
pub struct FailAfter {
    left: usize,
}

#[async_trait::async_trait]
impl Adapter<'static, String, Vec<String>> for FailAfter {
    async fn start(&mut self, stream: &mut Stream, base: &str, scope: Scope, filter: &str, attrs: Vec<String>) -> ldap3::result::Result<()> {
        stream.start(base, scope, filter, attrs).await
    }
    async fn next(&mut self, stream: &mut Stream) -> ldap3::result::Result<Option<ResultEntry>> {
        if self.left == 0 {
            return Err(LdapError::AdapterInit("client-side limit reached".into()));
        }
        self.left -= 1;
        stream.next().await
    }
    async fn finish(&mut self, stream: &mut Stream) -> LdapResult {
        stream.finish().await
    }
}

/// A user-defined adapter (public `Adapter` trait): passes everything through; when the call up
/// the chain fails it looks at the stream's state and calls next() on it once more (the trait's
/// documentation allows several calls up the chain per call), and reports both in its error.
#[derive(Clone, Debug)]
pub struct Probe;

#[async_trait::async_trait]
impl Adapter<'static, String, Vec<String>> for Probe {
    async fn start(&mut self, stream: &mut Stream, base: &str, scope: Scope, filter: &str, attrs: Vec<String>) -> ldap3::result::Result<()> {
        stream.start(base, scope, filter, attrs).await
    }
    async fn next(&mut self, stream: &mut Stream) -> ldap3::result::Result<Option<ResultEntry>> {
        match stream.next().await {
            Err(e) => {
                let st = format!("{:?}", stream.state());
                let again = match stream.next().await {
                    Ok(None) => "Ok(None)".to_string(),
                    Ok(Some(_)) => "Ok(Some)".to_string(),
                    Err(e2) => format!("Err({})", e2),
                };
                Err(LdapError::AdapterInit(format!("probe: upcall failed ({}); state seen by the adapter: {}; second next(): {}", e, st, again)))
            }
            ok => ok,
        }
    }
    async fn finish(&mut self, stream: &mut Stream) -> LdapResult {
        stream.finish().await
    }
}

pub struct Kit {
    pub ldap: Option<Ldap>,
    pub stream: Option<Stream>,
    /// a second search started through `stream`'s own handle
    pub inner: Option<Stream>,
}

struct WakeFlag(AtomicBool);
impl Wake for WakeFlag {
    fn wake(self: Arc<Self>) {
        self.0.store(true, Ordering::SeqCst);
    }
    fn wake_by_ref(self: &Arc<Self>) {
        self.0.store(true, Ordering::SeqCst);
    }
}

struct Task<T> {
    fut: Pin<Box<dyn Future<Output = T>>>,
    flag: Arc<WakeFlag>,
}

enum Polled<T> {
    Pending,
    Ready(T),
    Panicked(String),
}

impl<T> Task<T> {
    fn new(f: impl Future<Output = T> + 'static) -> Task<T> {
        Task { fut: Box::pin(tokio::task::unconstrained(f)), flag: Arc::new(WakeFlag(AtomicBool::new(true))) }
    }
    fn woken(&self) -> bool {
        self.flag.0.load(Ordering::SeqCst)
    }
    fn poll(&mut self) -> Polled<T> {
        self.flag.0.store(false, Ordering::SeqCst);
        let waker = Waker::from(self.flag.clone());
        let mut cx = Context::from_waker(&waker);
        let fut = &mut self.fut;
        match std::panic::catch_unwind(std::panic::AssertUnwindSafe(|| fut.as_mut().poll(&mut cx))) {
            Ok(Poll::Pending) => Polled::Pending,
            Ok(Poll::Ready(v)) => Polled::Ready(v),
            Err(e) => {
                let m = if let Some(s) = e.downcast_ref::<&str>() {
                    s.to_string()
                } else if let Some(s) = e.downcast_ref::<String>() {
                    s.clone()
                } else {
                    "panic".into()
                };
                Polled::Panicked(format!("{} @ {}", m, crate::common::last_panic_loc()))
            }
        }
    }
}

// ------------------------------------------------------------------------------------------
// select! start-branch control

thread_local! {
    static RNG_START: Cell<u32> = const { Cell::new(0) };
    static RNG_DRAWS: Cell<u32> = const { Cell::new(0) };
}

fn rng_hook(n: u32) -> u32 {
    let k = RNG_DRAWS.with(|d| {
        let v = d.get();
        d.set(v + 1);
        v
    });
    if k > 2000 {
        panic!("verif: select! livelock (more than 2000 draws in one poll)");
    }
    (RNG_START.with(|s| s.get()) + k) % n
}

pub fn install_rng_hook() {
    tokio::macros::support::verif_set_rng_hook(Some(rng_hook));
}

// ------------------------------------------------------------------------------------------
// conversions of library values into comparable observations

fn rctl(c: &Control) -> RCtl {
    RCtl { oid: c.1.ctype.clone(), crit: c.1.crit, val: c.1.val.clone(), known: format!("{:?}", c.0) }
}

fn rres(r: &LdapResult) -> RRes {
    RRes { rc: r.rc, matched: r.matched.clone(), text: r.text.clone(), refs: r.refs.clone(), ctrls: r.ctrls.iter().map(rctl).collect() }
}

pub fn ritem(re: &ResultEntry) -> RItem {
    let t = ber::from_lber(&re.0);
    let ctrls = re.1.iter().map(rctl).collect();
    let s = |b: &[u8]| String::from_utf8_lossy(b).into_owned();
    let mut notes = vec![];
    match msg::parse_op(&t, &mut notes) {
        Ok(Op::SearchEntry { dn, .. }) => RItem { kind: ItemKind::E, label: s(&dn), ctrls },
        Ok(Op::SearchRef(us)) => RItem { kind: ItemKind::R, label: us.iter().map(|u| s(u)).collect::<Vec<_>>().join(","), ctrls },
        Ok(Op::Intermediate { name, .. }) => RItem { kind: ItemKind::I, label: name.map(|n| s(&n)).unwrap_or_default(), ctrls },
        other => RItem { kind: ItemKind::E, label: format!("UNPARSABLE {:?}", other), ctrls },
    }
}

fn err_ret(e: &LdapError) -> Ret {
    let kind = match e {
        LdapError::Timeout { .. } => "Timeout",
        LdapError::ResultRecv { .. } => "ResultRecv",
        LdapError::OpSend { .. } => "OpSend",
        LdapError::EndOfStream => "EndOfStream",
        LdapError::Io { .. } => "Io",
        LdapError::IdScrubSend { .. } => "IdScrubSend",
        LdapError::AdapterInit(_) => "AdapterInit",
        LdapError::FilterParsing => "FilterParsing",
        LdapError::LdapResult { .. } => "LdapResult",
        LdapError::AddNoValues => "AddNoValues",
        _ => "Other",
    };
    Ret::Err(kind.to_string(), format!("{}", e))
}

fn caller_ctl(marker: &str) -> RawControl {
    RawControl { ctype: CALLER_CTL_OID.into(), crit: false, val: Some(marker.as_bytes().to_vec()) }
}

fn hs(v: &[&str]) -> HashSet<String> {
    v.iter().map(|s| s.to_string()).collect()
}

/// scripted timeouts are milliseconds; u64::MAX stands for Duration::MAX
fn dur(ms: u64) -> Duration {
    if ms == u64::MAX {
        Duration::MAX
    } else {
        Duration::from_millis(ms)
    }
}

async fn single_op(ldap: &mut Ldap, kind: &OpKind, marker: &str) -> Ret {
    let r = match kind {
        OpKind::Bind => ldap.simple_bind(marker, "pw").await.map(|r| Ret::Res(rres(&r))),
        OpKind::Compare => ldap.compare(marker, "a", "v").await.map(|r| Ret::Res(rres(&r.0))),
        OpKind::Delete => ldap.delete(marker).await.map(|r| Ret::Res(rres(&r))),
        OpKind::Extended => ldap
            .extended(Exop { name: Some(marker.to_string()), val: None })
            .await
            .map(|r| Ret::Exop(rres(&r.1), r.0.name.clone(), r.0.val.clone())),
        OpKind::Add => ldap.add(marker, vec![("cn".to_string(), hs(&["x"]))]).await.map(|r| Ret::Res(rres(&r))),
        OpKind::Modify => ldap.modify(marker, vec![Mod::Replace("cn".to_string(), hs(&["y"]))]).await.map(|r| Ret::Res(rres(&r))),
        OpKind::ModDn => ldap.modifydn(marker, "cn=n", true, None).await.map(|r| Ret::Res(rres(&r))),
    };
    r.unwrap_or_else(|e| err_ret(&e))
}

async fn run_call(mut kit: Kit, call: Call, ab_id: Option<i32>) -> (Kit, Ret) {
    let ret = match call {
        Call::Single { kind, marker, timeout, ctrl } => {
            let ldap = kit.ldap.as_mut().expect("handle");
            if let Some(t) = timeout {
                ldap.with_timeout(dur(t));
            }
            if ctrl {
                ldap.with_controls(caller_ctl(&marker));
            }
            let r = match kind {
                OpKind::Bind => ldap.simple_bind(&marker, "pw").await.map(|r| Ret::Res(rres(&r))),
                OpKind::Compare => ldap.compare(&marker, "a", "v").await.map(|r| Ret::Res(rres(&r.0))),
                OpKind::Delete => ldap.delete(&marker).await.map(|r| Ret::Res(rres(&r))),
                OpKind::Extended => ldap
                    .extended(Exop { name: Some(marker.clone()), val: None })
                    .await
                    .map(|r| Ret::Exop(rres(&r.1), r.0.name.clone(), r.0.val.clone())),
                OpKind::Add => ldap.add(&marker, vec![("cn".to_string(), hs(&["x"]))]).await.map(|r| Ret::Res(rres(&r))),
                OpKind::Modify => ldap
                    .modify(&marker, vec![Mod::Replace("cn".to_string(), hs(&["y"]))])
                    .await
                    .map(|r| Ret::Res(rres(&r))),
                OpKind::ModDn => ldap.modifydn(&marker, "cn=n", true, None).await.map(|r| Ret::Res(rres(&r))),
            };
            r.unwrap_or_else(|e| err_ret(&e))
        }
        Call::Search { marker, timeout } => {
            let ldap = kit.ldap.as_mut().expect("handle");
            if let Some(t) = timeout {
                ldap.with_timeout(dur(t));
            }
            match ldap.search(&marker, Scope::Subtree, "(objectClass=*)", vec!["cn".to_string()]).await {
                Ok(sr) => Ret::SearchRes(sr.0.iter().map(ritem).collect(), rres(&sr.1)),
                Err(e) => err_ret(&e),
            }
        }
        Call::Start { marker, chain, timeout, ctrl, opts, own_paging } => {
            kit.stream = None;
            let ldap = kit.ldap.as_mut().expect("handle");
            if let Some(t) = timeout {
                ldap.with_timeout(dur(t));
            }
            let mut ctrls = vec![];
            if ctrl {
                ctrls.push(caller_ctl(&marker));
            }
            if own_paging {
                ctrls.push(ldap3::controls::PagedResults { size: 7, cookie: vec![] }.into());
            }
            if !ctrls.is_empty() {
                ldap.with_controls(ctrls);
            }
            if opts {
                ldap.with_search_options(SearchOptions::new().sizelimit(11).timelimit(6).typesonly(true));
            }
            let adapters: Vec<Box<dyn Adapter<'static, String, Vec<String>>>> = match chain {
                Chain::Direct => vec![],
                Chain::EntriesOnly => vec![Box::new(EntriesOnly::new())],
                Chain::Paged(p) => vec![Box::new(PagedResults::<String, Vec<String>>::new(p))],
                Chain::EntriesPaged(p) => {
                    vec![Box::new(EntriesOnly::new()), Box::new(PagedResults::<String, Vec<String>>::new(p))]
                }
                Chain::FailAfter(n) => vec![Box::new(FailAfter { left: n })],
                Chain::PagedEntries(p) => {
                    vec![Box::new(PagedResults::<String, Vec<String>>::new(p)), Box::new(EntriesOnly::new())]
                }
                Chain::Probe => vec![Box::new(Probe)],
            };
            match ldap
                .streaming_search_with(adapters, &marker, Scope::OneLevel, "(cn=x)", vec!["cn".to_string(), "sn".to_string()])
                .await
            {
                Ok(s) => {
                    kit.stream = Some(s);
                    Ret::Started
                }
                Err(e) => err_ret(&e),
            }
        }
        Call::StartOwnPaging { marker, chain, order } => {
            kit.stream = None;
            let ldap = kit.ldap.as_mut().expect("handle");
            let own: RawControl = ldap3::controls::PagedResults { size: 7, cookie: vec![] }.into();
            let ctrls = match order {
                0 => vec![own],
                1 => vec![own, caller_ctl(&marker)],
                2 => vec![caller_ctl(&marker), own, ldap3::controls::ManageDsaIt.into()],
                _ => vec![caller_ctl(&marker), own],
            };
            ldap.with_controls(ctrls);
            let adapters: Vec<Box<dyn Adapter<'static, String, Vec<String>>>> = match chain {
                Chain::EntriesPaged(p) => vec![Box::new(EntriesOnly::new()), Box::new(PagedResults::<String, Vec<String>>::new(p))],
                Chain::Paged(p) => vec![Box::new(PagedResults::<String, Vec<String>>::new(p))],
                Chain::PagedEntries(p) => vec![Box::new(PagedResults::<String, Vec<String>>::new(p)), Box::new(EntriesOnly::new())],
                _ => vec![],
            };
            match ldap.streaming_search_with(adapters, &marker, Scope::OneLevel, "(cn=x)", vec!["cn".to_string(), "sn".to_string()]).await {
                Ok(s) => {
                    kit.stream = Some(s);
                    Ret::Started
                }
                Err(e) => err_ret(&e),
            }
        }
        Call::Next if kit.stream.is_none() => Ret::Err("NoStream".into(), "no stream (start failed)".into()),
        Call::Finish if kit.stream.is_none() => Ret::Err("NoStream".into(), "no stream (start failed)".into()),
        Call::Next => {
            let s = kit.stream.as_mut().expect("stream");
            match s.next().await {
                Ok(o) => Ret::Item(o.as_ref().map(ritem)),
                Err(e) => err_ret(&e),
            }
        }
        Call::Finish => {
            let s = kit.stream.as_mut().expect("stream");
            Ret::Fin(rres(&s.finish().await))
        }
        Call::Abandon(_) => {
            let ldap = kit.ldap.as_mut().expect("handle");
            match ldap.abandon(ab_id.expect("abandon id")).await {
                Ok(()) => Ret::Unit,
                Err(e) => err_ret(&e),
            }
        }
        Call::Unbind => {
            let ldap = kit.ldap.as_mut().expect("handle");
            match ldap.unbind().await {
                Ok(()) => Ret::Unit,
                Err(e) => err_ret(&e),
            }
        }
        Call::DropHandle => {
            kit.stream = None;
            kit.inner = None;
            kit.ldap = None;
            Ret::Unit
        }
        Call::SearchOpts { marker } => {
            let ldap = kit.ldap.as_mut().expect("handle");
            ldap.with_search_options(SearchOptions::new().sizelimit(11).timelimit(6).typesonly(true));
            match ldap.search(&marker, Scope::Subtree, "(objectClass=*)", vec!["cn".to_string()]).await {
                Ok(sr) => Ret::SearchRes(sr.0.iter().map(ritem).collect(), rres(&sr.1)),
                Err(e) => err_ret(&e),
            }
        }
        Call::DropStream => {
            kit.stream = None;
            kit.inner = None;
            Ret::Unit
        }
        Call::ExplicitStart => match kit.stream.as_mut() {
            None => Ret::Err("NoStream".into(), "no stream (start failed)".into()),
            Some(s) => match s.start("explicit-start", Scope::Base, "(cn=again)", vec!["cn".to_string()]).await {
                Ok(()) => Ret::Unit,
                Err(e) => err_ret(&e),
            },
        },
        Call::SingleViaStream { kind, marker } => match kit.stream.as_mut() {
            None => Ret::Err("NoStream".into(), "no stream (start failed)".into()),
            Some(s) => single_op(s.ldap_handle(), &kind, &marker).await,
        },
        Call::StartInner { marker } => {
            kit.inner = None;
            match kit.stream.as_mut() {
                None => Ret::Err("NoStream".into(), "no stream (start failed)".into()),
                Some(s) => match s.ldap_handle().streaming_search(&marker, Scope::OneLevel, "(cn=x)", vec!["cn".to_string(), "sn".to_string()]).await {
                    Ok(inner) => {
                        kit.inner = Some(inner);
                        Ret::Started
                    }
                    Err(e) => err_ret(&e),
                },
            }
        }
        Call::NextInner => match kit.inner.as_mut() {
            None => Ret::Err("NoStream".into(), "no inner stream".into()),
            Some(s) => match s.next().await {
                Ok(o) => Ret::Item(o.as_ref().map(ritem)),
                Err(e) => err_ret(&e),
            },
        },
        Call::FinishInner => match kit.inner.as_mut() {
            None => Ret::Err("NoStream".into(), "no inner stream".into()),
            Some(s) => Ret::Fin(rres(&s.finish().await)),
        },
    };
    (kit, ret)
}

// ------------------------------------------------------------------------------------------
// server model

#[derive(Clone, Debug, PartialEq, Eq)]
pub enum RK {
    Single(u32),
    Search,
    Abandon(i64),
    Unbind,
}

#[derive(Clone, Debug)]
pub struct SReq {
    pub id: i64,
    pub marker: String,
    pub kind: RK,
    pub msg: Msg,
    pub sent: usize,
    pub done: bool,
    pub abandoned: bool,
    /// for paged searches: (size, cookie) of the request's paging control, and the page slice
    pub page: Option<(i64, Vec<u8>)>,
    pub items: Vec<(ItemKind, String)>,
    pub done_cookie: Option<Vec<u8>>,
    pub t_seen: u64,
}

#[derive(Default)]
pub struct Server {
    pub parsed: usize,
    pub reqs: Vec<SReq>,
    pub pages_served: BTreeMap<String, usize>,
    pub last_cookie: BTreeMap<String, Vec<u8>>,
    pub first_req: BTreeMap<String, Msg>,
    pub paging_over: BTreeSet<String>,
    pub bogus_left: Vec<BogusKind>,
    pub last_answered_single: Option<(i64, u32)>,
    pub last_done_search: Option<i64>,
    pub saw_unbind: bool,
    pub garbage_tail: bool,
    /// markers of single operations that were sent an IntermediateResponse
    pub intermediate_for: BTreeSet<String>,
}

fn marker_of(op: &Op) -> String {
    let b = match op {
        Op::BindReq { name, .. } => name.clone(),
        Op::SearchReq { base, .. } => base.clone(),
        Op::DelReq(d) => d.clone(),
        Op::CompareReq { dn, .. } | Op::AddReq { dn, .. } | Op::ModifyReq { dn, .. } | Op::ModDnReq { dn, .. } => dn.clone(),
        Op::ExtReq { name, .. } => name.clone(),
        _ => vec![],
    };
    String::from_utf8_lossy(&b).into_owned()
}

fn resp_tag(op: &Op) -> Option<u32> {
    Some(match op {
        Op::BindReq { .. } => 1,
        Op::ModifyReq { .. } => 7,
        Op::AddReq { .. } => 9,
        Op::DelReq(_) => 11,
        Op::ModDnReq { .. } => 13,
        Op::CompareReq { .. } => 15,
        Op::ExtReq { .. } => 24,
        _ => return None,
    })
}

pub fn exop_value(marker: &str, binary: bool) -> Vec<u8> {
    let mut v = if binary { vec![0x00, 0xff, 0xfe, 0x80] } else { vec![] };
    v.extend_from_slice(marker.as_bytes());
    v
}

fn single_resp(tag: u32, res: Res, marker: &str, binary: bool) -> Op {
    match tag {
        1 => Op::BindResp(res, if binary { Some(vec![0xff, 0x00, 0x80]) } else { None }),
        7 => Op::ModifyResp(res),
        9 => Op::AddResp(res),
        11 => Op::DelResp(res),
        13 => Op::ModDnResp(res),
        15 => Op::CompareResp(res),
        _ => Op::ExtResp(res, Some(format!("n:{}", marker).into_bytes()), Some(exop_value(marker, binary))),
    }
}

pub fn paging_value(size: i64, cookie: &[u8]) -> Vec<u8> {
    ber::encode(&Tlv::seq(vec![Tlv::int(size), Tlv::octets(cookie.to_vec())]))
}

/// which entries page number `served` (0-based) of a paged search holds, and whether more follow
pub fn page_slice(plan: &Plan, size: usize, served: usize) -> (usize, usize, bool) {
    let (lo, hi) = match plan.cookie {
        CookieStyle::EmptyFirst => {
            if served == 0 {
                (0, 0)
            } else {
                (((served - 1) * size).min(plan.total), (served * size).min(plan.total))
            }
        }
        _ => ((served * size).min(plan.total), ((served + 1) * size).min(plan.total)),
    };
    let more = hi < plan.total || (matches!(plan.cookie, CookieStyle::EmptyFirst) && served == 0 && plan.total > 0);
    (lo, hi, more)
}

/// the referral list of a final result
pub fn result_referral(marker: &str, plan: &Plan) -> Vec<String> {
    let u = format!("ldap://ref/{}", marker);
    if plan.dup_refs {
        vec![u.clone(), u, "ldap://réf.example/ou=é".to_string()]
    } else {
        vec![u]
    }
}

/// the item kinds of a non-paged search (`many_items` overrides `items`)
pub fn plan_items_of(plan: &Plan) -> Vec<ItemKind> {
    if plan.many_items > 0 {
        (0..plan.many_items).map(|j| if j % 7 == 6 { ItemKind::R } else { ItemKind::E }).collect()
    } else {
        plan.items.clone()
    }
}

/// label of a scripted non-paged item
pub fn item_label(marker: &str, j: usize, k: ItemKind, plan: &Plan) -> String {
    match k {
        ItemKind::R if plan.dup_refs => format!("ldap://{0}#{1},ldap://{0}#{1}", marker, j),
        ItemKind::R => format!("ldap://{}#{}", marker, j),
        ItemKind::I if plan.bare_intermediate => String::new(),
        _ => format!("{}#{}", marker, j),
    }
}

pub fn page_ref_label(marker: &str, served: usize) -> String {
    format!("ldap://{}/p{}", marker, served)
}

fn parse_paging(v: &[u8]) -> Option<(i64, Vec<u8>)> {
    let t = ber::decode_all(v).ok()?;
    let c = t.as_cons()?;
    if !t.is(UNI, 16) || c.len() != 2 || !c[0].is(UNI, 2) || !c[1].is(UNI, 4) {
        return None;
    }
    Some((ber::int_value(c[0].as_prim()?)? as i64, c[1].as_prim()?.to_vec()))
}

// ------------------------------------------------------------------------------------------

pub enum DriverStatus {
    Running,
    Done(Result<(), String>),
    Panicked(String),
}

pub struct Client {
    pub pos: usize,
    pub free_left: u8,
    pub kit: Option<Kit>,
    task: Option<Task<(Kit, Ret)>>,
    pub cur: Option<(Call, u64)>,
    pub log: Vec<Obs>,
    pub last_id: i32,
    pub stream_closed: bool,
    pub has_stream: bool,
    /// time of the last poll that left the current call pending
    pub last_poll: u64,
    /// reference model of the stream (C10)
    pub sm: StreamModel,
    /// how many bytes the client side had written when the current call started
    pub out_mark: usize,
    /// the second search started through the stream's own handle: (marker, items handed out, open)
    pub inner: Option<(String, usize, bool)>,
    /// the driver was gone when the current call started
    pub dead_at_start: bool,
    /// the shared ID counter right after the current call's first poll (the ID it was given,
    /// if it allocated one): hidden in the call's future otherwise
    pub id_at_start: i32,
}

#[derive(Clone, Debug, Default)]
pub struct StreamModel {
    pub marker: String,
    pub chain: Option<Chain>,
    pub state: &'static str,
    pub pos: usize,
    pub refs: Vec<String>,
    pub complete: bool,
    pub finishes: u32,
    pub timeout: Option<u64>,
    pub failed: bool,
}

pub struct World {
    pub scn: Arc<Scenario>,
    pub io: Arc<Mutex<IoInner>>,
    driver: Option<Task<Result<(), String>>>,
    pub dstatus: DriverStatus,
    pub clients: Vec<Client>,
    pub probe: Option<Ldap>,
    pub server: Server,
    pub now: u64,
    pub ticks_left: u8,
    pub faults_left: u8,
    pub fault_done: Option<(FaultKind, u64)>,
    pub dropped_all: bool,
    pub viol: Vec<(String, String)>,
    /// per wire ID: response frames fully readable and the driver polled since
    pub routed: BTreeMap<i64, (usize, u64)>,
    pub emitted: BTreeMap<i64, usize>,
    pub gauges: Option<(Vec<i32>, Vec<i32>)>,
    pub driver_polls: u32,
    pub stats_multi_outstanding: bool,
    /// markers of calls that timed out before their request had reached the wire
    pub timed_out_unsent: BTreeSet<String>,
    pub injected: bool,
    /// markers of calls whose caller went away mid-wait, and of streams dropped without finish()
    pub cancelled_markers: BTreeSet<String>,
    /// message IDs of the last two frames the server emitted (the order in which the driver met
    /// the most recent frames: part of the canonical state, so that anything the driver might
    /// remember about "the previous frame" keeps states apart)
    pub last_emitted: (i64, i64),
    /// the malformed-result fault hit a search whose caller was blocked in the stream without a
    /// timeout: the driver itself has to decode that frame, cannot, and the connection is over
    pub bad_tail_kills: bool,
    /// per search marker: how many of its frames the server had sent when an Abandon naming it
    /// was acknowledged to its caller (nothing beyond them may be handed out any more)
    pub abandon_acked: BTreeMap<String, usize>,
}

/// the ID table through the probe handle; (-1, []) if the table's mutex is poisoned (a panic
/// of the code under test while it held the lock - reported where it happened)
fn msgmap_of(p: &Ldap) -> (i32, Vec<i32>) {
    std::panic::catch_unwind(std::panic::AssertUnwindSafe(|| p.verif_msgmap())).unwrap_or((-1, vec![]))
}

fn call_name(c: &Call) -> String {
    format!("{:?}", c)
}

impl World {
    pub fn new(scn: Arc<Scenario>) -> World {
        let (mem, io) = MemIo::new();
        ldap3::verif::reset_gauges();
        let (conn, ldap) = LdapConnAsync::verif_pair(Box::new(mem));
        if let Some((last, ids)) = &scn.preset {
            ldap.verif_set_msgmap(*last, ids);
        }
        let driver = Task::new(async move { conn.drive().await.map_err(|e| format!("{}", e)) });
        let clients = scn
            .clients
            .iter()
            .map(|cs| Client {
                pos: 0,
                free_left: cs.free,
                kit: Some(Kit { ldap: Some(ldap.clone()), stream: None, inner: None }),
                task: None,
                cur: None,
                log: vec![],
                last_id: 0,
                stream_closed: false,
                has_stream: false,
                last_poll: 0,
                sm: StreamModel { state: "None", ..Default::default() },
                out_mark: 0,
                inner: None,
                dead_at_start: false,
                id_at_start: 0,
            })
            .collect();
        let mut server = Server::default();
        server.bogus_left = scn.bogus.clone();
        World {
            io,
            driver: Some(driver),
            dstatus: DriverStatus::Running,
            clients,
            probe: Some(ldap),
            server,
            now: 0,
            ticks_left: scn.tick_budget,
            faults_left: scn.fault_budget,
            fault_done: None,
            dropped_all: false,
            viol: vec![],
            routed: BTreeMap::new(),
            emitted: BTreeMap::new(),
            gauges: None,
            driver_polls: 0,
            stats_multi_outstanding: false,
            timed_out_unsent: BTreeSet::new(),
            injected: false,
            cancelled_markers: BTreeSet::new(),
            last_emitted: (-1, -1),
            bad_tail_kills: false,
            abandon_acked: BTreeMap::new(),
            scn,
        }
    }

    fn v(&mut self, key: &str, desc: String) {
        if !self.viol.iter().any(|(k, d)| k == key && *d == desc) {
            self.viol.push((key.to_string(), desc));
        }
    }

    pub fn driver_alive(&self) -> bool {
        matches!(self.dstatus, DriverStatus::Running)
    }

    fn plan(&self, marker: &str) -> Plan {
        self.scn.plans.get(marker).cloned().unwrap_or_default()
    }

    // ---------------------------------------------------------------- enabled actions
    pub fn enabled(&self) -> Vec<Action> {
        let mut out = vec![];
        for (i, c) in self.clients.iter().enumerate() {
            if c.task.is_some() {
                if c.task.as_ref().unwrap().woken() {
                    out.push(Action::PollC(i));
                }
                continue;
            }
            let spec = &self.scn.clients[i];
            if c.pos < spec.script.len() {
                let ok = match &spec.script[c.pos] {
                    Call::Abandon(AbTarget::Marker(m)) => self.server.reqs.iter().any(|r| r.marker == *m),
                    _ => true,
                };
                if ok && c.kit.as_ref().map_or(false, |k| k.ldap.is_some() || matches!(spec.script[c.pos], Call::Next | Call::Finish | Call::NextInner | Call::FinishInner | Call::SingleViaStream { .. } | Call::StartInner { .. } | Call::DropStream | Call::ExplicitStart)) {
                    out.push(Action::Do(i));
                }
            } else if c.free_left > 0 && c.has_stream {
                out.push(Action::DoFree(i, FreeCall::Next));
                out.push(Action::DoFree(i, FreeCall::Finish));
            }
        }
        for i in &self.scn.cancellable {
            if self.clients.get(*i).map_or(false, |c| c.task.is_some()) {
                out.push(Action::Cancel(*i));
            }
        }
        if let Some(d) = &self.driver {
            if d.woken() {
                for s in &self.scn.select_starts {
                    out.push(Action::PollD(*s));
                }
            }
        }
        let io = self.io.lock().unwrap();
        let link_up = !io.eof && !io.read_err && self.fault_done.map_or(true, |f| !matches!(f.0, FaultKind::Eof | FaultKind::Reset | FaultKind::Garbage | FaultKind::ShortGarbage | FaultKind::InnerOverrun | FaultKind::WideId));
        if link_up {
            for r in &self.server.reqs {
                if self.srv_can_answer(r) {
                    out.push(Action::Srv(r.id));
                }
            }
            for b in &self.server.bogus_left {
                let ok = match b {
                    BogusKind::UnusedId | BogusKind::Zero => true,
                    BogusKind::DupCompleted => self.server.last_answered_single.is_some(),
                    BogusKind::EntryAfterDone => self.server.last_done_search.is_some(),
                    BogusKind::IntermediateForPending => self.server.reqs.iter().any(|r| matches!(r.kind, RK::Single(_)) && !r.done && !r.abandoned),
                };
                if ok && !out.contains(&Action::Bogus(*b)) {
                    out.push(Action::Bogus(*b));
                }
            }
        }
        if self.scn.byte_mode && !io.staged.is_empty() && !io.read_err {
            for s in &self.scn.net_steps {
                out.push(Action::Net(*s));
            }
        }
        if io.write_waker.is_some() {
            out.push(Action::WriteReady);
        }
        if self.scn.raw_inject.is_some() && !self.injected && link_up {
            out.push(Action::Inject);
        }
        drop(io);
        if self.ticks_left > 0 && self.clients.iter().any(|c| c.task.is_some()) {
            out.push(Action::Tick);
        }
        if self.faults_left > 0 {
            for f in &self.scn.faults {
                out.push(Action::Fault(*f));
            }
        }
        if self.scn.drop_all
            && !self.dropped_all
            && self.clients.iter().enumerate().all(|(i, c)| c.task.is_none() && c.pos >= self.scn.clients[i].script.len() && c.free_left == 0)
        {
            out.push(Action::DropAll);
        }
        out
    }

    fn srv_can_answer(&self, r: &SReq) -> bool {
        if r.done || self.server.saw_unbind {
            return false;
        }
        if r.abandoned && !self.scn.answer_after_abandon {
            return false;
        }
        let plan = self.plan(&r.marker);
        if plan.silent {
            return false;
        }
        if plan.silent_after_pages > 0 && r.page.is_some() && *self.server.pages_served.get(&r.marker).unwrap_or(&0) >= plan.silent_after_pages {
            return false;
        }
        if plan.no_done && r.kind == RK::Search && r.sent >= r.items.len() {
            return false;
        }
        matches!(r.kind, RK::Single(_) | RK::Search)
    }

    fn cur_timeout(&self, c: &Client) -> Option<u64> {
        match &c.cur {
            Some((Call::Single { timeout, .. }, _)) | Some((Call::Search { timeout, .. }, _)) | Some((Call::Start { timeout, .. }, _)) => *timeout,
            Some((Call::Next, _)) => c.sm.timeout,
            _ => None,
        }
    }

    // ---------------------------------------------------------------- applying actions
    pub async fn apply(&mut self, a: &Action) {
        match a {
            Action::Do(i) => {
                let call = self.scn.clients[*i].script[self.clients[*i].pos].clone();
                self.clients[*i].pos += 1;
                self.start_call(*i, call);
            }
            Action::DoFree(i, fc) => {
                self.clients[*i].free_left -= 1;
                let call = match fc {
                    FreeCall::Next => Call::Next,
                    FreeCall::Finish => Call::Finish,
                };
                self.start_call(*i, call);
            }
            Action::PollC(i) => self.poll_client(*i),
            Action::PollD(s) => self.poll_driver(*s),
            Action::Srv(id) => self.srv(*id),
            Action::Bogus(k) => self.bogus(*k),
            Action::Net(step) => {
                let mut io = self.io.lock().unwrap();
                let n = match step {
                    NetStep::One => 1,
                    NetStep::All => io.staged.len(),
                    NetStep::Frame => {
                        let v: Vec<u8> = io.staged.iter().copied().collect();
                        match ber::outer_header(&v) {
                            Ok((h, l)) => (h + l).min(v.len()),
                            Err(_) => v.len(),
                        }
                    }
                };
                io.release_staged(n);
            }
            Action::Tick => {
                self.ticks_left -= 1;
                tokio::time::advance(Duration::from_millis(self.scn.tick_ms)).await;
                self.now += self.scn.tick_ms;
            }
            Action::Fault(f) => {
                self.faults_left -= 1;
                self.fault_done = Some((*f, self.now));
                let mut io = self.io.lock().unwrap();
                match f {
                    FaultKind::Eof => io.set_eof(),
                    FaultKind::Reset => {
                        io.set_read_err();
                        // frames emitted but not yet read are gone
                        self.emitted = self.routed.iter().map(|(k, v)| (*k, v.0)).collect();
                    }
                    FaultKind::Garbage => {
                        // not an LDAPMessage envelope: a complete primitive OCTET STRING
                        if !io.staged.is_empty() {
                            self.emitted = self.routed.iter().map(|(k, v)| (*k, v.0)).collect();
                        }
                        io.staged.clear();
                        io.deliver(&[0x04, 0x02, 0xde, 0xad]);
                        io.set_eof();
                    }
                    FaultKind::ShortGarbage => {
                        if !io.staged.is_empty() {
                            self.emitted = self.routed.iter().map(|(k, v)| (*k, v.0)).collect();
                        }
                        io.staged.clear();
                        io.deliver(&[0x30, 0x00]);
                    }
                    FaultKind::WideId => {
                        if !io.staged.is_empty() {
                            self.emitted = self.routed.iter().map(|(k, v)| (*k, v.0)).collect();
                        }
                        io.staged.clear();
                        let (id, op) = match self.server.reqs.iter().find(|r| !r.done && !r.abandoned && matches!(r.kind, RK::Single(_) | RK::Search)) {
                            Some(r) => (
                                r.id,
                                match r.kind {
                                    RK::Single(tag) => single_resp(tag, Res::new(0, "id=wide", "for-nobody"), "for-nobody", false),
                                    _ => Op::SearchDone(Res::new(0, "id=wide", "for-nobody")),
                                },
                            ),
                            None => (1, single_resp(1, Res::new(0, "id=wide", "for-nobody"), "for-nobody", false)),
                        };
                        let idb = (id as u32).to_be_bytes();
                        let t = Tlv::seq(vec![Tlv::prim(ber::UNI, 2, vec![1, idb[0], idb[1], idb[2], idb[3]]), crate::vcore::msg::op_tlv(&op)]);
                        io.deliver(&ber::encode(&t));
                    }
                    FaultKind::InnerOverrun => {
                        if !io.staged.is_empty() {
                            self.emitted = self.routed.iter().map(|(k, v)| (*k, v.0)).collect();
                        }
                        io.staged.clear();
                        io.deliver(&[0x30, 0x0c, 0x02, 0x01, 0x02, 0x61, 0x0a, 0x0a, 0x01, 0x00, 0x04, 0x00, 0x04, 0x00]);
                    }
                    FaultKind::BadResultTail => {
                        let blocked_in: Vec<String> = if self.scn.cancellable.is_empty() {
                            self.clients
                                .iter()
                                .filter(|c| c.task.is_some() && self.cur_timeout(c).is_none())
                                .filter_map(|c| match &c.cur {
                                    Some((Call::Next, _)) if c.has_stream && !c.stream_closed => Some(c.sm.marker.clone()),
                                    Some((Call::Search { marker, .. }, _)) => Some(marker.clone()),
                                    _ => None,
                                })
                                .collect()
                        } else {
                            vec![]
                        };
                        let mut kills = false;
                        if let Some(r) = self.server.reqs.iter_mut().find(|r| !r.done && !r.abandoned && matches!(r.kind, RK::Single(_) | RK::Search)) {
                            kills = r.kind == RK::Search && blocked_in.contains(&r.marker);
                            // (this is the server's answer to that request: nothing more follows)
                            r.done = true;
                            let tag = match r.kind {
                                RK::Single(t) => t,
                                _ => 5,
                            };
                            let body = vec![
                                Tlv::enumerated(0),
                                Tlv::octets(vec![]),
                                Tlv::octets(b"tail".to_vec()),
                                Tlv::cons(CTX, 3, vec![Tlv::octets(b"ldap://x".to_vec())]),
                                Tlv::prim(CTX, 10, b"1.2".to_vec()),
                                Tlv::prim(CTX, 11, b"x".to_vec()),
                                Tlv::prim(CTX, 10, vec![0xff, 0xfe]),
                            ];
                            let msg = Tlv::seq(vec![Tlv::int(r.id), Tlv::cons(ber::APP, tag, body)]);
                            io.deliver(&ber::encode(&msg));
                        }
                        self.bad_tail_kills = kills;
                    }
                    FaultKind::WriteErr => {
                        io.wmode = WMode::Err;
                        io.wake_writer();
                    }
                    FaultKind::WritePartial(n) => {
                        io.wmode = WMode::AcceptThenErr(*n);
                        io.wake_writer();
                    }
                    FaultKind::WritePendingOnce => io.wmode = WMode::PendingOnce,
                }
            }
            Action::WriteReady => {
                self.io.lock().unwrap().wake_writer();
            }
            Action::Inject => {
                self.injected = true;
                let b = self.scn.raw_inject.clone().unwrap_or_default();
                self.io.lock().unwrap().deliver(&b);
            }
            Action::Cancel(i) => {
                // the future (and the handle / stream moved into it) is dropped mid-wait
                let c = &mut self.clients[*i];
                c.task = None;
                let (call, t0) = c.cur.take().expect("cancel: current call");
                if let Some(m) = match &call {
                    Call::Single { marker, .. } | Call::Search { marker, .. } | Call::Start { marker, .. } => Some(marker.clone()),
                    Call::Next | Call::Finish => Some(c.sm.marker.clone()),
                    _ => None,
                } {
                    self.cancelled_markers.insert(m);
                }
                c.log.push(Obs { call: call_name(&call), ret: Ret::Err("CANCELLED".into(), "the caller dropped the future".into()), t_start: t0, t_end: self.now, last_id: -1, stream_state: None, stream_last_id: None });
                c.kit = None;
                c.has_stream = false;
                c.inner = None;
                c.pos = usize::MAX / 2;
            }
            Action::DropAll => {
                self.dropped_all = true;
                self.probe = None;
                for c in &mut self.clients {
                    c.kit = None;
                    c.has_stream = false;
                }
            }
        }
        self.after_step();
    }

    fn start_call(&mut self, i: usize, call: Call) {
        let ab_id = match &call {
            Call::Abandon(AbTarget::OwnLast) => Some(self.clients[i].last_id),
            Call::Abandon(AbTarget::Fixed(x)) => Some(*x),
            Call::Abandon(AbTarget::Marker(m)) => self.server.reqs.iter().rev().find(|r| r.marker == *m).map(|r| r.id as i32),
            _ => None,
        };
        let kit = self.clients[i].kit.take().expect("kit");
        // reference model bookkeeping for streams
        if let Call::Start { marker, chain, timeout, .. } = &call {
            self.clients[i].sm = StreamModel {
                marker: marker.clone(),
                chain: Some(chain.clone()),
                state: "Fresh",
                timeout: *timeout,
                ..Default::default()
            };
        }
        self.clients[i].cur = Some((call.clone(), self.now));
        self.clients[i].out_mark = self.io.lock().unwrap().out.len();
        self.clients[i].dead_at_start = !self.driver_alive();
        let before = self.probe.as_ref().map(|p| msgmap_of(p));
        let allocates = !matches!(call, Call::StartOwnPaging { .. }) && matches!(call, Call::Single { .. } | Call::Search { .. } | Call::SearchOpts { .. } | Call::Abandon(_) | Call::Unbind | Call::SingleViaStream { .. } | Call::StartInner { .. })
            || matches!(&call, Call::Start { own_paging, chain, .. } if !(*own_paging && matches!(chain, Chain::Paged(_) | Chain::EntriesPaged(_) | Chain::PagedEntries(_))));
        self.clients[i].task = Some(Task::new(run_call(kit, call.clone(), ab_id)));
        self.poll_client(i);
        self.clients[i].id_at_start = self.probe.as_ref().map_or(0, |p| msgmap_of(p).0);
        if self.scn.oracles.ids && allocates {
            if let (Some((last, inuse)), Some(p)) = (before, self.probe.as_ref()) {
                let (last2, inuse2) = msgmap_of(p);
                // reference: cyclic successor in 1..=2^31-1 skipping IDs in use
                let mut want = last as i64;
                loop {
                    want = if want >= i32::MAX as i64 { 1 } else { want + 1 };
                    if !inuse.contains(&(want as i32)) {
                        break;
                    }
                }
                let mut exp: Vec<i32> = inuse.clone();
                exp.push(want as i32);
                exp.sort_unstable();
                // (a call which failed at once - the driver was gone, the request never left the
                // client - may have given its ID back already)
                let mut same = inuse.clone();
                same.sort_unstable();
                let failed_at_once = self.clients[i].task.is_none() && matches!(self.clients[i].log.last().map(|o| &o.ret), Some(Ret::Err(..)));
                if last2 as i64 != want || (inuse2 != exp && !(failed_at_once && inuse2 == same)) {
                    self.v(
                        "ids:allocation",
                        format!("allocation from (last={}, in use {:?}) gave (last={}, in use {:?}); reference: ID {}", last, inuse, last2, inuse2, want),
                    );
                }
            }
        }
    }

    fn poll_client(&mut self, i: usize) {
        RNG_DRAWS.with(|d| d.set(0));
        let mut task = self.clients[i].task.take().expect("task");
        match task.poll() {
            Polled::Pending => {
                self.clients[i].task = Some(task);
                self.clients[i].last_poll = self.now;
            }
            Polled::Ready((mut kit, ret)) => {
                let (call, t0) = self.clients[i].cur.take().unwrap();
                let last_id = kit.ldap.as_mut().map(|l| l.last_id()).unwrap_or(-1);
                let (ss, sl) = match kit.stream.as_mut() {
                    Some(s) => (Some(format!("{:?}", s.state())), Some(s.ldap_handle().last_id())),
                    None => (None, None),
                };
                if last_id >= 0 {
                    self.clients[i].last_id = last_id;
                }
                self.clients[i].has_stream = kit.stream.is_some();
                let obs = Obs { call: call_name(&call), ret: ret.clone(), t_start: t0, t_end: self.now, last_id, stream_state: ss, stream_last_id: sl };
                self.clients[i].kit = Some(kit);
                self.judge_call(i, &call, &obs);
                self.clients[i].log.push(obs);
            }
            Polled::Panicked(m) => {
                let (call, t0) = self.clients[i].cur.take().unwrap();
                let obs = Obs {
                    call: call_name(&call),
                    ret: Ret::Err("PANIC".into(), m.clone()),
                    t_start: t0,
                    t_end: self.now,
                    last_id: -1,
                    stream_state: None,
                    stream_last_id: None,
                };
                self.clients[i].log.push(obs);
                self.clients[i].kit = None;
                self.clients[i].has_stream = false;
                let site = m.rsplit(" @ ").next().unwrap_or("").to_string();
                self.v(&format!("client-panic:{}:{}", call_kind(&call), site), format!("client {} call {:?} panicked: {}", i, call, m));
            }
        }
    }

    fn poll_driver(&mut self, s: u32) {
        RNG_START.with(|c| c.set(s));
        RNG_DRAWS.with(|d| d.set(0));
        let mut task = self.driver.take().expect("driver");
        self.driver_polls += 1;
        // frames fully readable before this poll count as routed afterwards (if it survives)
        let readable: BTreeMap<i64, usize> = self.emitted_readable();
        match task.poll() {
            Polled::Pending => {
                self.driver = Some(task);
                // a driver that is stuck in a request write has not looked at the read side
                let stalled_in_write = self.io.lock().unwrap().write_waker.is_some();
                if !stalled_in_write {
                    for (id, n) in readable {
                        let e = self.routed.entry(id).or_insert((0, self.now));
                        if n > e.0 {
                            *e = (n, self.now);
                        }
                    }
                    if self.scn.oracles.route {
                        self.check_held_back();
                    }
                }
            }
            Polled::Ready(r) => {
                // complete frames that were readable before this poll were routed before the
                // driver looked at the end of the stream
                let at_eof = r.is_ok() && !self.dropped_all && self.io.lock().unwrap().eof;
                if at_eof {
                    for (id, n) in readable {
                        let e = self.routed.entry(id).or_insert((0, self.now));
                        if n > e.0 {
                            *e = (n, self.now);
                        }
                    }
                }
                // with only well-formed server bytes and no fault, unbind or last drop, the driver
                // has no reason to return
                let cause = self.fault_done.is_some() || self.server.saw_unbind || self.dropped_all || self.injected || self.io.lock().unwrap().shutdown;
                if !cause {
                    self.v("driver:exited-without-cause", format!("drive() returned {:?} although nothing ended the connection", r));
                }
                self.dstatus = DriverStatus::Done(r);
            }
            Polled::Panicked(m) => {
                let site = m.rsplit(" @ ").next().unwrap_or("").to_string();
                self.v(&format!("driver-panic:{}", site), format!("drive() panicked: {}", m));
                self.dstatus = DriverStatus::Panicked(m);
            }
        }
        self.gauges = ldap3::verif::gauges();
    }

    /// The driver has just gone back to waiting. A caller that waits for a single response, or
    /// for the next item of a direct stream, whose frame was completely readable before that
    /// poll must have been woken by it.
    fn check_held_back(&mut self) {
        let mut found = vec![];
        for (i, c) in self.clients.iter().enumerate() {
            let (task, call) = match (&c.task, &c.cur) {
                (Some(t), Some((call, _))) => (t, call),
                _ => continue,
            };
            if task.woken() {
                continue;
            }
            let (marker, handed) = match call {
                Call::Single { marker, .. } => (marker.clone(), 0usize),
                Call::Next if matches!(c.sm.chain, Some(Chain::Direct)) && c.sm.state == "Active" => (c.sm.marker.clone(), c.sm.pos),
                Call::NextInner => match &c.inner {
                    Some((m, pos, true)) => (m.clone(), *pos),
                    _ => continue,
                },
                _ => continue,
            };
            if self.abandoned_marker(&marker) || self.server.intermediate_for.contains(&marker) {
                continue;
            }
            let routed = self.routed_frames(&marker);
            if routed > handed {
                found.push((i, format!("{:?}", call), routed, handed));
            }
        }
        for (i, call, routed, handed) in found {
            self.v(
                "route:complete-frame-held-back",
                format!("client {} waits in {} and was not woken although {} frame(s) for it had arrived completely before the driver's last poll and only {} were handed out", i, call, routed, handed),
            );
        }
    }

    /// number of response frames per ID whose last byte has been made readable
    fn emitted_readable(&self) -> BTreeMap<i64, usize> {
        // in frame mode every emitted frame is readable at once; in byte mode only those wholly
        // released. We track counts at emission time and subtract what is still staged.
        let io = self.io.lock().unwrap();
        if io.staged.is_empty() {
            return self.emitted.clone();
        }
        // conservative: with bytes still staged, nothing new is counted as routed
        self.routed.iter().map(|(k, v)| (*k, v.0)).collect()
    }

    fn push_frame(&mut self, m: &Msg) {
        let bytes = m.encode();
        *self.emitted.entry(m.id).or_insert(0) += 1;
        self.last_emitted = (self.last_emitted.1, m.id);
        let mut io = self.io.lock().unwrap();
        if self.scn.byte_mode {
            io.staged.extend(bytes.iter().copied());
        } else {
            io.deliver(&bytes);
        }
    }

    fn srv(&mut self, id: i64) {
        // IDs are unique among open requests on a correct tree; a tree which hands an ID out twice
        // can leave two of them here, and then the one which may be answered is meant
        let idx = self.server.reqs.iter().position(|r| r.id == id && self.srv_can_answer(r)).expect("srv target");
        let r = self.server.reqs[idx].clone();
        let plan = self.plan(&r.marker);
        let res_ctl = |marker: &str| Ctl { oid: RES_CTL_OID.as_bytes().to_vec(), crit: None, val: Some(marker.as_bytes().to_vec()) };
        let extra_ctl = |marker: &str| Ctl { oid: EXTRA_CTL_OID.as_bytes().to_vec(), crit: Some(true), val: Some(format!("{}/x", marker).into_bytes()) };
        let mut res = Res::new(plan.rc as i64, &format!("id={}", id), &r.marker);
        if plan.referral {
            res.referral = Some(result_referral(&r.marker, &plan).into_iter().map(String::into_bytes).collect());
        }
        match r.kind {
            RK::Single(tag) => {
                let mut ctrls = vec![];
                if plan.res_ctrls {
                    ctrls.push(res_ctl(&r.marker));
                }
                if plan.extra_res_ctrl {
                    ctrls.push(extra_ctl(&r.marker));
                }
                let m = Msg { id, op: single_resp(tag, res, &r.marker, plan.binary_payload), controls: if ctrls.is_empty() && !plan.empty_ctrls { None } else { Some(ctrls) } };
                self.push_frame(&m);
                self.server.reqs[idx].done = true;
                self.server.last_answered_single = Some((id, tag));
            }
            RK::Search => {
                if r.sent < r.items.len() {
                    let (k, label) = r.items[r.sent].clone();
                    let op = match k {
                        ItemKind::E => Op::SearchEntry {
                            dn: label.clone().into_bytes(),
                            attrs: if plan.entry_value_size > 0 || plan.entry_values > 0 {
                                vec![
                                    (b"cn".to_vec(), vec![vec![b'v'; plan.entry_value_size.max(1)]]),
                                    (b"member".to_vec(), (0..plan.entry_values.max(1)).map(|j| format!("uid=u{}", j).into_bytes()).collect()),
                                ]
                            } else {
                                vec![(b"cn".to_vec(), vec![b"v".to_vec()])]
                            },
                        },
                        ItemKind::R => Op::SearchRef(label.split(',').map(|u| u.as_bytes().to_vec()).collect()),
                        ItemKind::I if plan.bare_intermediate => Op::Intermediate { name: None, val: None },
                        ItemKind::I => Op::Intermediate { name: Some(label.clone().into_bytes()), val: None },
                    };
                    let controls = if plan.item_ctrls {
                        Some(vec![Ctl { oid: ITEM_CTL_OID.as_bytes().to_vec(), crit: Some(false), val: Some(label.into_bytes()) }])
                    } else if plan.empty_ctrls {
                        Some(vec![])
                    } else {
                        None
                    };
                    self.push_frame(&Msg { id, op, controls });
                    self.server.reqs[idx].sent += 1;
                } else if plan.no_done {
                    unreachable!("srv_can_answer excludes it");
                } else {
                    let mut ctrls = vec![];
                    if plan.res_ctrls {
                        ctrls.push(res_ctl(&r.marker));
                    }
                    if plan.extra_res_ctrl {
                        ctrls.push(extra_ctl(&r.marker));
                    }
                    if let Some(cookie) = &r.done_cookie {
                        let served_so_far = *self.server.pages_served.get(&r.marker).unwrap_or(&0);
                        let pc = if plan.cookie == CookieStyle::HugeEstimate {
                            let est: Vec<u8> = match served_so_far {
                                0 => vec![0x00, 0x80, 0x00, 0x00, 0x00],
                                1 => vec![0x01, 0x00, 0x00, 0x00, 0x00, 0x00],
                                _ => vec![0xff, 0xff, 0xff, 0xff],
                            };
                            Ctl { oid: PAGED_OID.as_bytes().to_vec(), crit: None, val: Some(ber::encode(&Tlv::seq(vec![Tlv::prim(UNI, 2, est), Tlv::octets(cookie.clone())]))) }
                        } else if plan.cookie == CookieStyle::WithEstimate {
                            Ctl { oid: PAGED_OID.as_bytes().to_vec(), crit: Some(true), val: Some(paging_value(if served_so_far == 0 { 70000 } else { 128 }, cookie)) }
                        } else {
                            Ctl { oid: PAGED_OID.as_bytes().to_vec(), crit: None, val: Some(paging_value(0, cookie)) }
                        };
                        if plan.extra_res_ctrl {
                            ctrls.insert(0, pc);
                        } else {
                            ctrls.push(pc);
                        }
                        self.server.last_cookie.insert(r.marker.clone(), cookie.clone());
                        *self.server.pages_served.entry(r.marker.clone()).or_insert(0) += 1;
                        if cookie.is_empty() {
                            self.server.paging_over.insert(r.marker.clone());
                        }
                    }
                    let m = Msg { id, op: Op::SearchDone(res), controls: if ctrls.is_empty() && !plan.empty_ctrls { None } else { Some(ctrls) } };
                    self.push_frame(&m);
                    self.server.reqs[idx].done = true;
                    self.server.last_done_search = Some(id);
                }
            }
            _ => unreachable!(),
        }
    }

    fn bogus(&mut self, k: BogusKind) {
        self.server.bogus_left.retain(|b| *b != k);
        let res = |id: i64| Res::new(0, &format!("id={}", id), "BOGUS");
        let m = match k {
            BogusKind::UnusedId => Msg { id: 7777, op: Op::BindResp(res(7777), None), controls: None },
            BogusKind::Zero => Msg {
                id: 0,
                op: Op::ExtResp(Res::new(52, "", "BOGUS"), Some(b"1.3.6.1.4.1.1466.20036".to_vec()), None),
                controls: None,
            },
            BogusKind::DupCompleted => {
                let (id, tag) = self.server.last_answered_single.unwrap();
                Msg { id, op: single_resp(tag, res(id), "BOGUS", false), controls: None }
            }
            BogusKind::EntryAfterDone => {
                let id = self.server.last_done_search.unwrap();
                Msg { id, op: Op::SearchEntry { dn: b"BOGUS".to_vec(), attrs: vec![] }, controls: None }
            }
            BogusKind::IntermediateForPending => {
                let r = self.server.reqs.iter().find(|r| matches!(r.kind, RK::Single(_)) && !r.done && !r.abandoned).unwrap().clone();
                self.server.intermediate_for.insert(r.marker.clone());
                Msg { id: r.id, op: Op::Intermediate { name: Some(b"1.2.3.BOGUS-IR".to_vec()), val: None }, controls: None }
            }
        };
        self.push_frame(&m);
    }

    // ---------------------------------------------------------------- server ingest + invariants
    fn after_step(&mut self) {
        self.ingest();
        if self.scn.oracles.ids {
            self.check_ids();
        }
        if self.scn.oracles.timing {
            self.check_timing_pending();
        }
    }

    fn ingest(&mut self) {
        let (out, shutdown) = {
            let io = self.io.lock().unwrap();
            (io.out[self.server.parsed..].to_vec(), io.shutdown)
        };
        let _ = shutdown;
        if out.is_empty() || self.server.garbage_tail {
            return;
        }
        let (frames, used) = match msg::split_frames(&out) {
            Ok(x) => x,
            Err(e) => {
                self.server.garbage_tail = true;
                self.v("wire:malformed-request", format!("client wrote bytes that are not BER: {} ({})", e, ber::hex(&out)));
                return;
            }
        };
        self.server.parsed += used;
        for f in frames {
            let mut notes = vec![];
            let m = match Msg::from_tlv(&f, &mut notes) {
                Ok(m) => m,
                Err(e) => {
                    self.v("wire:not-an-ldapmessage", format!("request is not a valid LDAPMessage: {} ({})", e, ber::hex(&ber::encode(&f))));
                    continue;
                }
            };
            for n in notes {
                self.v("wire:non-canonical", format!("request encoding: {}", n));
            }
            self.on_request(m);
        }
    }

    fn on_request(&mut self, m: Msg) {
        let marker = marker_of(&m.op);
        let kind = match &m.op {
            Op::SearchReq { .. } => RK::Search,
            Op::AbandonReq(t) => RK::Abandon(*t),
            Op::UnbindReq => RK::Unbind,
            op => match resp_tag(op) {
                Some(t) => RK::Single(t),
                None => {
                    self.v("wire:response-op-from-client", format!("client sent a non-request op: {:?}", m.op));
                    return;
                }
            },
        };
        if m.id < 1 || m.id > i32::MAX as i64 {
            self.v("ids:out-of-range", format!("message ID {} outside 1..=2^31-1", m.id));
        }
        // uniqueness among requests the server has neither answered nor been told to forget,
        // and whose caller is still waiting
        let active: Vec<i64> = self.active_ids();
        if self.scn.oracles.ids && active.contains(&m.id) {
            self.v("ids:duplicate-in-flight", format!("message ID {} reused while still outstanding (active: {:?})", m.id, active));
        }
        if active.len() >= 1 && matches!(kind, RK::Single(_) | RK::Search) {
            self.stats_multi_outstanding = true;
        }
        let mut req = SReq {
            id: m.id,
            marker: marker.clone(),
            kind: kind.clone(),
            msg: m.clone(),
            sent: 0,
            done: false,
            abandoned: false,
            page: None,
            items: vec![],
            done_cookie: None,
            t_seen: self.now,
        };
        match &kind {
            RK::Abandon(t) => {
                req.done = true;
                for r in self.server.reqs.iter_mut() {
                    if r.id == *t && !r.done {
                        r.abandoned = true;
                    }
                }
            }
            RK::Unbind => {
                req.done = true;
                self.server.saw_unbind = true;
                if self.scn.server_closes_on_unbind {
                    self.io.lock().unwrap().set_eof();
                }
            }
            RK::Single(_) => {}
            RK::Search => {
                let plan = self.plan(&marker);
                let paging = m.controls.as_ref().and_then(|cs| {
                    let v: Vec<&Ctl> = cs.iter().filter(|c| c.oid == PAGED_OID.as_bytes()).collect();
                    if v.len() > 1 {
                        None
                    } else {
                        v.first().and_then(|c| c.val.as_ref()).and_then(|v| parse_paging(v))
                    }
                });
                if let Some((size, cookie)) = paging {
                    req.page = Some((size, cookie.clone()));
                    let served = *self.server.pages_served.get(&marker).unwrap_or(&0);
                    let size_u = size.max(0) as usize;
                    let (lo, hi, more) = page_slice(&plan, size_u, served);
                    req.items = vec![];
                    if plan.page_refs {
                        req.items.push((ItemKind::R, page_ref_label(&marker, served)));
                    }
                    req.items.extend((lo..hi).map(|j| (ItemKind::E, format!("{}#{}", marker, j))));
                    req.done_cookie = Some(if !more {
                        vec![]
                    } else {
                        match plan.cookie {
                            CookieStyle::Constant => b"C".to_vec(),
                            CookieStyle::TailLooksEmpty => vec![0xde, served as u8 + 1, 0x04, 0x00],
                            CookieStyle::Long(n) => (0..n).map(|j| if j == 0 { served as u8 + 1 } else { (j % 251) as u8 }).collect(),
                            _ => vec![0x00, 0xff, served as u8 + 1],
                        }
                    });
                    if self.scn.oracles.paged {
                        self.judge_paged_request(&m, &marker, size, &cookie, served);
                    }
                } else {
                    req.items = plan_items_of(&plan).iter().enumerate().map(|(j, k)| (*k, item_label(&marker, j, *k, &plan))).collect();
                }
            }
        }
        self.server.reqs.push(req);
    }

    /// IDs of requests the server has seen, not finished, not been asked to abandon, and whose
    /// caller is still waiting for them (a timed-out or finished caller frees its ID client-side).
    fn active_ids(&self) -> Vec<i64> {
        let mut out = vec![];
        for r in &self.server.reqs {
            if r.done || r.abandoned {
                continue;
            }
            if self.owner_waiting(&r.marker, r.id) {
                out.push(r.id);
            }
        }
        out
    }

    fn owner_waiting(&self, marker: &str, id: i64) -> bool {
        for (i, c) in self.clients.iter().enumerate() {
            let _ = i;
            // in-flight call carrying this marker
            if let Some((call, _)) = &c.cur {
                match call {
                    Call::Single { marker: m, .. }
                    | Call::Search { marker: m, .. }
                    | Call::SearchOpts { marker: m }
                    | Call::Start { marker: m, .. }
                    | Call::SingleViaStream { marker: m, .. }
                    | Call::StartInner { marker: m }
                        if m == marker =>
                    {
                        return true
                    }
                    _ => {}
                }
            }
            if let Some((m, _, open)) = &c.inner {
                if *open && m == marker {
                    return true;
                }
            }
            // open stream for this marker whose current wire ID is `id`
            if c.has_stream && !c.stream_closed && c.sm.marker == marker && !c.sm.failed {
                if c.cur.is_some() {
                    return true;
                }
                if let Some(o) = c.log.last() {
                    if o.stream_last_id == Some(id as i32) && c.sm.state != "Closed" {
                        return true;
                    }
                }
            }
        }
        false
    }

    fn check_ids(&mut self) {
        let a = self.active_ids();
        let mut s = a.clone();
        s.sort();
        s.dedup();
        if s.len() != a.len() {
            self.v("ids:duplicate-in-flight", format!("two outstanding operations share an ID: {:?}", a));
        }
    }

    fn judge_paged_request(&mut self, m: &Msg, marker: &str, size: i64, cookie: &[u8], served: usize) {
        let want_size = match self.clients.iter().find(|c| c.sm.marker == marker).and_then(|c| c.sm.chain.clone()) {
            Some(Chain::Paged(p)) | Some(Chain::EntriesPaged(p)) | Some(Chain::PagedEntries(p)) => p as i64,
            _ => size,
        };
        if size != want_size {
            self.v("paged:size", format!("paging control size {} != requested {}", size, want_size));
        }
        if self.server.paging_over.contains(marker) {
            self.v("paged:request-after-end", format!("search request for {} after the empty cookie", marker));
        }
        if served == 0 {
            if !cookie.is_empty() {
                self.v("paged:first-cookie", format!("first request carries cookie {}", ber::hex(cookie)));
            }
            self.server.first_req.insert(marker.to_string(), m.clone());
        } else {
            let last = self.server.last_cookie.get(marker).cloned().unwrap_or_default();
            if cookie != &last[..] {
                self.v("paged:cookie", format!("follow-up cookie {} != last returned {}", ber::hex(cookie), ber::hex(&last)));
            }
            if let Some(first) = self.server.first_req.get(marker).cloned() {
                if first.op != m.op {
                    self.v("paged:followup-differs", format!("follow-up request differs: {:?} vs {:?}", m.op, first.op));
                }
                let strip = |c: &Option<Vec<Ctl>>| -> Vec<Ctl> {
                    c.clone().unwrap_or_default().into_iter().filter(|c| c.oid != PAGED_OID.as_bytes()).collect()
                };
                if strip(&first.controls) != strip(&m.controls) {
                    self.v("paged:followup-controls", format!("follow-up controls differ: {:?} vs {:?}", m.controls, first.controls));
                }
            }
        }
        let n = m.controls.as_ref().map_or(0, |cs| cs.iter().filter(|c| c.oid == PAGED_OID.as_bytes()).count());
        if n != 1 {
            self.v("paged:control-count", format!("{} paging controls in request", n));
        }
    }

    // ---------------------------------------------------------------- per-call oracle
    fn judge_call(&mut self, i: usize, call: &Call, obs: &Obs) {
        let o = self.scn.oracles.clone();
        let faulted = self.fault_done.is_some() || self.server.saw_unbind || self.dropped_all || !self.driver_alive();
        // anybody seeing the bogus marker is a routing violation, always
        let dbg = format!("{:?}", obs.ret);
        if dbg.contains("BOGUS") {
            self.v("route:bogus-delivered", format!("client {} call {} observed an unsolicited/late response: {}", i, obs.call, dbg));
        }
        match call {
            Call::Single { marker, timeout, .. } => {
                let plan = self.plan(marker);
                match &obs.ret {
                    Ret::Res(r) | Ret::Exop(r, _, _) => {
                        if o.route || o.timing || o.term {
                            self.judge_res(i, marker, &plan, r, obs, false);
                        }
                        if let Ret::Exop(_, n, v) = &obs.ret {
                            if n.as_deref() != Some(&format!("n:{}", marker)) || v.as_deref() != Some(&exop_value(marker, plan.binary_payload)[..]) {
                                self.v("route:exop-fields", format!("client {} exop name/value {:?}/{:?} for marker {}", i, n, v, marker));
                            }
                        }
                    }
                    Ret::Err(k, m) => {
                        if k == "Timeout" {
                            self.judge_timeout(i, marker, *timeout, obs);
                        } else if k != "PANIC" && !faulted && !self.abandoned_marker(marker) && !self.server.intermediate_for.contains(marker) {
                            self.v(&format!("call:unexpected-error:{}", k), format!("client {} {} failed without any fault: {}", i, obs.call, m));
                        }
                        if k != "PANIC" && k != "Timeout" && o.term && !self.abandoned_marker(marker) && !self.server.intermediate_for.contains(marker) && self.response_routed_before(marker, obs.t_end, false) {
                            self.v("term:delivered-response-lost", format!("client {} {}: the response had been delivered and routed, yet the call failed with {}", i, obs.call, m));
                        }
                    }
                    other => self.v("call:wrong-shape", format!("client {} {} returned {:?}", i, obs.call, other)),
                }
            }
            Call::Search { marker, timeout } => {
                let plan = self.plan(marker);
                match &obs.ret {
                    Ret::SearchRes(items, r) => {
                        let want: Vec<String> =
                            plan_items_of(&plan).iter().enumerate().filter(|(_, k)| **k == ItemKind::E).map(|(j, _)| format!("{}#{}", marker, j)).collect();
                        // (entry labels do not depend on the reference / intermediate options)
                        let got: Vec<String> = items.iter().map(|x| x.label.clone()).collect();
                        let err_result = r.rc == 88 && r.text == "user cancelled";
                        if !err_result {
                            if got != want || items.iter().any(|x| x.kind != ItemKind::E) {
                                self.v("stream:search-entries", format!("search() entries {:?} != server entries {:?}", got, want));
                            }
                            self.judge_res(i, marker, &plan, r, obs, true);
                        } else if !faulted {
                            self.v("stream:search-cancelled", format!("search() returned the synthetic result without a fault: {:?}", r));
                        } else {
                            // search() has no early finish: when its stream fails the call fails
                            self.v(
                                "term:search-error-swallowed",
                                format!("client {} search() returned Ok with {} entries and the synthetic result {:?} after the connection failed, instead of an error", i, items.len(), r),
                            );
                        }
                        self.judge_item_ctrls(i, items, &plan);
                    }
                    Ret::Err(k, m) => {
                        if k == "Timeout" {
                            self.judge_timeout(i, marker, *timeout, obs);
                        } else if k != "PANIC" && !faulted && !self.abandoned_marker(marker) {
                            self.v(&format!("call:unexpected-error:{}", k), format!("client {} {} failed without any fault: {}", i, obs.call, m));
                        }
                        if k != "PANIC" && k != "Timeout" && o.term && !self.abandoned_marker(marker) && self.routed_frames(marker) > plan_items_of(&plan).len() {
                            self.v("term:delivered-response-lost", format!("client {} {}: every item and the final result had been delivered and routed, yet the call failed with {}", i, obs.call, m));
                        }
                    }
                    other => self.v("call:wrong-shape", format!("client {} {} returned {:?}", i, obs.call, other)),
                }
            }
            Call::Start { marker, own_paging, chain, timeout, .. } => match &obs.ret {
                Ret::Started => {
                    self.clients[i].sm.state = "Active";
                    self.clients[i].stream_closed = false;
                    if *own_paging && matches!(chain, Chain::Paged(_) | Chain::EntriesPaged(_) | Chain::PagedEntries(_)) {
                        self.v("paged:own-control-accepted", "a caller-supplied paging control was accepted by the PagedResults adapter".to_string());
                    }
                    if obs.stream_state.as_deref() != Some("Active") {
                        self.v("stream:state", format!("state after start is {:?}", obs.stream_state));
                    }
                }
                Ret::Err(k, m) => {
                    self.clients[i].sm.state = "Error";
                    self.clients[i].sm.failed = true;
                    if k == "AdapterInit" && *own_paging {
                        let sent = self.server.reqs.iter().any(|r| r.marker == *marker);
                        if sent {
                            self.v("paged:sent-despite-reject", "a request was sent although start() failed with AdapterInit".to_string());
                        }
                    } else if k == "Timeout" {
                        self.judge_timeout(i, marker, *timeout, obs);
                    } else if k != "PANIC" && !faulted {
                        self.v(&format!("call:unexpected-error:{}", k), format!("client {} {} failed without any fault: {}", i, obs.call, m));
                    }
                }
                other => self.v("call:wrong-shape", format!("client {} {} returned {:?}", i, obs.call, other)),
            },
            Call::StartOwnPaging { marker, .. } => match &obs.ret {
                Ret::Err(k, _) if k == "AdapterInit" => {
                    self.clients[i].sm.state = "Error";
                    self.clients[i].sm.failed = true;
                    if self.server.reqs.iter().any(|r| r.marker == *marker) {
                        self.v("paged:sent-despite-reject", "a request was sent although start() failed with AdapterInit".to_string());
                    }
                }
                other => {
                    self.clients[i].sm.failed = true;
                    self.v("paged:own-control-accepted", format!("a caller-supplied paging control was not rejected at start: {:?}", other));
                }
            },
            Call::Next => self.judge_next(i, obs, faulted),
            Call::Finish => self.judge_finish(i, obs, faulted),
            Call::SingleViaStream { marker, .. } => {
                let plan = self.plan(marker);
                match &obs.ret {
                    Ret::Res(r) | Ret::Exop(r, _, _) => {
                        // the operation ran on the stream's handle: that is where its ID is
                        let mut o2 = obs.clone();
                        o2.last_id = obs.stream_last_id.unwrap_or(-1);
                        self.judge_res(i, marker, &plan, r, &o2, false);
                    }
                    Ret::Err(k, m) => {
                        if k != "PANIC" && k != "NoStream" && !faulted && !self.server.intermediate_for.contains(marker) {
                            self.v(&format!("call:unexpected-error:{}", k), format!("client {} {} failed without any fault: {}", i, obs.call, m));
                        }
                    }
                    other => self.v("call:wrong-shape", format!("client {} {} returned {:?}", i, obs.call, other)),
                }
            }
            Call::StartInner { marker } => match &obs.ret {
                Ret::Started => self.clients[i].inner = Some((marker.clone(), 0, true)),
                Ret::Err(k, m) => {
                    if k != "PANIC" && k != "NoStream" && !faulted {
                        self.v(&format!("call:unexpected-error:{}", k), format!("client {} {} failed without any fault: {}", i, obs.call, m));
                    }
                }
                other => self.v("call:wrong-shape", format!("client {} {} returned {:?}", i, obs.call, other)),
            },
            Call::NextInner => {
                if let Some((marker, pos, open)) = self.clients[i].inner.clone() {
                    let plan = self.plan(&marker);
                    let script: Vec<(ItemKind, String)> = plan_items_of(&plan).iter().enumerate().map(|(j, k)| (*k, item_label(&marker, j, *k, &plan))).collect();
                    match &obs.ret {
                        Ret::Item(Some(g)) => {
                            match script.get(pos) {
                                Some((k, label)) if g.kind == *k && g.label == *label && open => {}
                                other => self.v("stream:inner-item", format!("client {} inner next() returned {:?} {:?}, the server's next item for {} is {:?}", i, g.kind, g.label, marker, other)),
                            }
                            self.clients[i].inner = Some((marker, pos + 1, open));
                        }
                        Ret::Item(None) => {
                            if open && pos < script.len() {
                                self.v("stream:inner-early-end", format!("client {} inner next() returned Ok(None) but the server still has {:?} for {}", i, script[pos], marker));
                            }
                        }
                        Ret::Err(k, m) => {
                            if k != "PANIC" && !faulted && !self.abandoned_marker(&marker) {
                                self.v(
                                    &format!("stream:inner-error:{}", k),
                                    format!("client {} next() on the search started through the outer stream's handle failed without any fault: {} ({} of {} items handed out)", i, m, pos, script.len()),
                                );
                            }
                            self.clients[i].inner = Some((marker, pos, false));
                        }
                        other => self.v("call:wrong-shape", format!("client {} {} returned {:?}", i, obs.call, other)),
                    }
                }
            }
            Call::FinishInner => {
                if let Some((marker, pos, open)) = self.clients[i].inner.clone() {
                    let plan = self.plan(&marker);
                    if let Ret::Fin(r) = &obs.ret {
                        if open && pos >= plan_items_of(&plan).len() && r.rc != 88 {
                            if r.text != marker {
                                self.v("stream:inner-finish", format!("client {} finish() of the inner search returned {:?}", i, r));
                            }
                        }
                    }
                    self.clients[i].inner = Some((marker, pos, false));
                }
            }
            Call::SearchOpts { marker } => {
                let as_search = Call::Search { marker: marker.clone(), timeout: None };
                self.judge_call(i, &as_search, obs);
            }
            Call::DropStream => {
                if self.clients[i].has_stream || obs.stream_state.is_some() {
                    // (has_stream was refreshed from the kit before judging)
                }
                let m = self.clients[i].sm.marker.clone();
                if self.clients[i].sm.state == "Active" {
                    self.cancelled_markers.insert(m);
                }
                self.clients[i].stream_closed = true;
                self.clients[i].inner = None;
            }
            Call::ExplicitStart => {
                // documented as a no-op on a stream that has been started: no request, no state change
                let sm_state = self.clients[i].sm.state;
                match &obs.ret {
                    Ret::Unit => {
                        if self.server.reqs.iter().any(|r| r.marker == "explicit-start") {
                            self.v("stream:explicit-start-sent-a-request", format!("client {}: an explicit start() on a stream in state {} sent a new search request", i, sm_state));
                        }
                        if obs.stream_state.as_deref() != Some(sm_state) && sm_state != "None" {
                            self.v("stream:explicit-start-changed-state", format!("client {}: an explicit start() moved the stream from {} to {:?}", i, sm_state, obs.stream_state));
                        }
                    }
                    Ret::Err(k, _) if k == "NoStream" => {}
                    other => self.v("stream:explicit-start-failed", format!("client {}: an explicit start() in state {} returned {:?}", i, sm_state, other)),
                }
            }
            Call::Abandon(_) | Call::Unbind | Call::DropHandle => {
                if let (Call::Abandon(AbTarget::Marker(m)), Ret::Unit) = (call, &obs.ret) {
                    // (frames the server has emitted by now: an upper bound, whatever part of them the
                    // driver has read; the routed count is a lower bound while bytes are in transit)
                    let n: usize = self.server.reqs.iter().filter(|r| r.marker == *m).map(|r| self.emitted.get(&r.id).copied().unwrap_or(0)).sum();
                    self.abandon_acked.entry(m.clone()).or_insert(n);
                }
                if let Ret::Err(k, m) = &obs.ret {
                    if k != "PANIC" && !faulted {
                        self.v(&format!("call:unexpected-error:{}", k), format!("client {} {} failed without any fault: {}", i, obs.call, m));
                    }
                }
                // an Unbind on a connection that was already gone cannot have succeeded
                if matches!(call, Call::Unbind) && self.clients[i].dead_at_start && self.scn.oracles.term && matches!(obs.ret, Ret::Unit) {
                    self.v("term:unbind-ok-on-dead-connection", format!("client {} unbind() returned Ok although the connection was over when it was called", i));
                }
                if matches!(call, Call::DropHandle) {
                    self.clients[i].inner = None;
                }
                if matches!(call, Call::DropHandle) {
                    self.clients[i].has_stream = false;
                }
            }
        }
    }

    fn abandoned_marker(&self, marker: &str) -> bool {
        self.server.reqs.iter().any(|r| r.marker == marker && r.abandoned)
            || self.scn.clients.iter().any(|c| c.script.iter().any(|x| matches!(x, Call::Abandon(AbTarget::Marker(m)) if m == marker)))
    }

    fn judge_res(&mut self, i: usize, marker: &str, plan: &Plan, r: &RRes, obs: &Obs, is_search: bool) {
        self.judge_res_x(i, marker, plan, r, obs, is_search, &[])
    }

    fn judge_res_x(&mut self, i: usize, marker: &str, plan: &Plan, r: &RRes, obs: &Obs, is_search: bool, extra_refs: &[String]) {
        if r.text != marker {
            self.v("route:foreign-response", format!("client {} asked {} but was handed the response for {:?} ({:?})", i, marker, r.text, r));
            return;
        }
        // the server stamped the wire ID it answered under
        let id_ok = if is_search {
            self.server.reqs.iter().any(|q| q.marker == marker && format!("id={}", q.id) == r.matched)
        } else {
            r.matched == format!("id={}", obs.last_id)
        };
        if !id_ok {
            self.v("route:id-mismatch", format!("client {} ({}): response stamped {} but the handle's last_id is {}", i, marker, r.matched, obs.last_id));
        }
        if r.rc != plan.rc {
            self.v("result:rc", format!("client {} ({}): rc {} != server's {}", i, marker, r.rc, plan.rc));
        }
        let mut want_refs: Vec<String> = vec![];
        if is_search {
            // search(): URIs of reference messages merged into the referral list
            for (j, k) in plan_items_of(&plan).iter().enumerate() {
                if *k == ItemKind::R {
                    want_refs.extend(item_label(marker, j, *k, plan).split(',').map(|u| u.to_string()));
                }
            }
        }
        if plan.referral {
            want_refs.extend(result_referral(marker, plan));
        }
        want_refs.extend(extra_refs.iter().cloned());
        let mut got = r.refs.clone();
        got.sort();
        want_refs.sort();
        if got != want_refs {
            self.v("result:refs", format!("client {} ({}): referrals {:?} != expected {:?}", i, marker, r.refs, want_refs));
        }
        let mut want_ctrls: Vec<(String, Option<Vec<u8>>)> =
            if plan.res_ctrls { vec![(RES_CTL_OID.to_string(), Some(marker.as_bytes().to_vec()))] } else { vec![] };
        if plan.extra_res_ctrl {
            want_ctrls.push((EXTRA_CTL_OID.to_string(), Some(format!("{}/x", marker).into_bytes())));
        }
        let got_ctrls: Vec<(String, Option<Vec<u8>>)> = r.ctrls.iter().map(|c| (c.oid.clone(), c.val.clone())).collect();
        if got_ctrls != want_ctrls {
            self.v("result:ctrls", format!("client {} ({}): result controls {:?} != expected {:?}", i, marker, got_ctrls, want_ctrls));
        }
    }

    fn judge_item_ctrls(&mut self, i: usize, items: &[RItem], plan: &Plan) {
        for it in items {
            let want: Vec<(String, Option<Vec<u8>>)> =
                if plan.item_ctrls { vec![(ITEM_CTL_OID.to_string(), Some(it.label.as_bytes().to_vec()))] } else { vec![] };
            let got: Vec<(String, Option<Vec<u8>>)> = it.ctrls.iter().map(|c| (c.oid.clone(), c.val.clone())).collect();
            if got != want {
                self.v("stream:item-ctrls", format!("client {} item {}: controls {:?} != expected {:?}", i, it.label, got, want));
            }
        }
    }

    /// everything the server will send for the client's stream, in order (entries of all pages
    /// for paged searches)
    fn stream_script(&self, i: usize) -> Vec<(ItemKind, String)> {
        let sm = &self.clients[i].sm;
        let plan = self.plan(&sm.marker);
        match sm.chain {
            Some(Chain::Paged(p)) | Some(Chain::EntriesPaged(p)) | Some(Chain::PagedEntries(p)) => {
                let mut out = vec![];
                let mut served = 0usize;
                loop {
                    let (lo, hi, more) = page_slice(&plan, p.max(0) as usize, served);
                    if plan.page_refs {
                        out.push((ItemKind::R, page_ref_label(&sm.marker, served)));
                    }
                    out.extend((lo..hi).map(|j| (ItemKind::E, format!("{}#{}", sm.marker, j))));
                    served += 1;
                    if !more || served > 1_000_000 {
                        break;
                    }
                }
                out
            }
            _ => plan_items_of(&plan).iter().enumerate().map(|(j, k)| (*k, item_label(&sm.marker, j, *k, &plan))).collect(),
        }
    }

    fn judge_next(&mut self, i: usize, obs: &Obs, faulted: bool) {
        if matches!(&obs.ret, Ret::Err(k, _) if k == "NoStream") {
            return;
        }
        let script = self.stream_script(i);
        let sm = self.clients[i].sm.clone();
        let plan = self.plan(&sm.marker);
        let entries_only = matches!(sm.chain, Some(Chain::EntriesOnly) | Some(Chain::EntriesPaged(_)) | Some(Chain::PagedEntries(_)));
        match &obs.ret {
            Ret::Item(got) => {
                if sm.state != "Active" {
                    if got.is_some() {
                        self.v("stream:next-outside-active", format!("next() in state {} returned an item {:?}", sm.state, got));
                    }
                    if obs.stream_state.as_deref() != Some(sm.state) {
                        self.v("stream:state", format!("state after next() outside Active: {:?}, model {}", obs.stream_state, sm.state));
                    }
                    return;
                }
                // model: advance past skipped items
                let mut pos = sm.pos;
                let mut refs = sm.refs.clone();
                if entries_only {
                    while pos < script.len() && script[pos].0 != ItemKind::E {
                        if script[pos].0 == ItemKind::R {
                            refs.extend(script[pos].1.split(',').map(|u| u.to_string()));
                        }
                        pos += 1;
                    }
                }
                let want = script.get(pos).cloned();
                match (got, want) {
                    (Some(g), Some((k, label))) => {
                        if let Some(n) = self.abandon_acked.get(&sm.marker) {
                            let paged = matches!(sm.chain, Some(Chain::Paged(_)) | Some(Chain::EntriesPaged(_)) | Some(Chain::PagedEntries(_)));
                            if self.scn.oracles.route && !paged && pos >= *n {
                                self.v(
                                    "route:item-after-abandon",
                                    format!("client {} next() handed out item #{} ({:?}) of a search whose Abandon had been acknowledged when the server had sent only {} of its frames", i, pos, g.label, n),
                                );
                            }
                        }
                        if g.kind != k || g.label != label {
                            self.v("stream:item-order", format!("client {} next() returned {:?} {:?}, server's next item is {:?} {:?}", i, g.kind, g.label, k, label));
                        }
                        let g2 = g.clone();
                        self.judge_item_ctrls(i, &[g2], &plan);
                        self.clients[i].sm.pos = pos + 1;
                        self.clients[i].sm.refs = refs;
                        if obs.stream_state.as_deref() != Some("Active") {
                            self.v("stream:state", format!("state after an item is {:?}", obs.stream_state));
                        }
                    }
                    (None, None) => {
                        self.clients[i].sm.pos = pos;
                        self.clients[i].sm.refs = refs;
                        self.clients[i].sm.complete = true;
                        self.clients[i].sm.state = "Done";
                        if o_stream(&self.scn) && obs.stream_state.as_deref() != Some("Done") {
                            self.v(
                                &format!("stream:state-not-done:{}", chain_name(&sm.chain)),
                                format!("after next() returned Ok(None) the state is {:?}, expected Done", obs.stream_state),
                            );
                            // follow the implementation so that later judgements stay meaningful
                            if obs.stream_state.as_deref() == Some("Active") {
                                self.clients[i].sm.state = "Active";
                            }
                        }
                    }
                    (Some(g), None) => {
                        self.v("stream:extra-item", format!("client {} next() returned {:?} after the server's last item", i, g));
                    }
                    (None, Some(w)) => {
                        self.v("stream:early-end", format!("client {} next() returned Ok(None) but the server still has {:?}", i, w));
                        self.clients[i].sm.state = "Done";
                    }
                }
            }
            Ret::Err(k, m) => {
                self.clients[i].sm.state = "Error";
                self.clients[i].sm.failed = true;
                if entries_only && sm.state == "Active" && k != "PANIC" {
                    // the adapter drained everything that had been routed before it failed
                    let routed = self.routed_frames(&sm.marker).min(script.len());
                    self.clients[i].sm.refs = script[..routed].iter().filter(|x| x.0 == ItemKind::R).flat_map(|x| x.1.split(',').map(|u| u.to_string()).collect::<Vec<_>>()).collect();
                }
                // (paged chains: the routed frames include every page's SearchResultDone, which is
                // never handed out as an item, so the count says nothing there)
                let paged_chain = matches!(sm.chain, Some(Chain::Paged(_)) | Some(Chain::EntriesPaged(_)) | Some(Chain::PagedEntries(_)));
                if k != "Timeout" && k != "PANIC" && sm.state == "Active" && self.scn.oracles.term && !paged_chain && !self.abandoned_marker(&sm.marker) {
                    let routed = self.routed_frames(&sm.marker);
                    if routed > sm.pos {
                        self.v(
                            "term:delivered-item-lost",
                            format!("client {} next() failed with {} although {} frame(s) of its search had been delivered and routed and only {} were handed out", i, m, routed, sm.pos),
                        );
                    }
                }
                if k == "Timeout" {
                    let marker = sm.marker.clone();
                    self.judge_timeout(i, &marker, sm.timeout, obs);
                } else if k == "PANIC" {
                    // already reported by poll_client
                } else if k == "AdapterInit" && matches!(sm.chain, Some(Chain::FailAfter(n)) if sm.pos >= n) {
                    // the user-defined adapter's own failure, exactly when the model expects it
                } else if k == "AdapterInit" && matches!(sm.chain, Some(Chain::Probe)) && m.contains("probe: upcall failed") {
                    // what the adapter saw on the stream after the failed call up the chain
                    if !m.contains("state seen by the adapter: Error; second next(): Ok(None)") {
                        self.v("stream:state-inside-adapter", format!("after a failed next() up the chain the adapter observed: {}", m));
                    }
                    if !faulted && !self.abandoned_marker(&sm.marker) {
                        self.v("call:unexpected-error:probe", format!("client {} next() failed without any fault: {}", i, m));
                    }
                } else if !faulted && !self.abandoned_marker(&sm.marker) {
                    self.v(&format!("call:unexpected-error:{}", k), format!("client {} next() failed without any fault: {}", i, m));
                }
                if k != "PANIC" && obs.stream_state.as_deref() != Some("Error") {
                    self.v("stream:state", format!("state after a failed next() is {:?}", obs.stream_state));
                }
            }
            other => self.v("call:wrong-shape", format!("client {} next() returned {:?}", i, other)),
        }
    }

    fn judge_finish(&mut self, i: usize, obs: &Obs, faulted: bool) {
        if matches!(&obs.ret, Ret::Err(k, _) if k == "NoStream") {
            return;
        }
        let sm = self.clients[i].sm.clone();
        let plan = self.plan(&sm.marker);
        let _ = faulted;
        self.clients[i].stream_closed = true;
        match &obs.ret {
            Ret::Fin(r) => {
                if sm.state == "Closed" {
                    if r.rc != 80 {
                        self.v("stream:second-finish", format!("second finish() returned rc {} (expected 80)", r.rc));
                    }
                } else if sm.complete && !sm.failed {
                    // read to the end: the server's final result with its controls
                    let entries_only = matches!(sm.chain, Some(Chain::EntriesOnly) | Some(Chain::EntriesPaged(_)) | Some(Chain::PagedEntries(_)));
                    let paged = matches!(sm.chain, Some(Chain::Paged(_)) | Some(Chain::EntriesPaged(_)) | Some(Chain::PagedEntries(_)));
                    let marker = sm.marker.clone();
                    if r.text != marker {
                        self.v("stream:finish-result", format!("finish() after a complete read returned {:?}, expected the server's result for {}", r, marker));
                    } else {
                        let mut p2 = plan.clone();
                        if !entries_only {
                            p2.items.clear();
                            p2.many_items = 0;
                        }
                        if paged {
                            p2.items.clear();
                            p2.many_items = 0;
                        }
                        // an EntriesOnly adapter anywhere in the chain merges the reference URIs of
                        // every page into the final result
                        let extra: Vec<String> = if paged && entries_only {
                            self.stream_script(i).into_iter().filter(|x| x.0 == ItemKind::R).map(|x| x.1).collect()
                        } else {
                            vec![]
                        };
                        self.judge_res_x(i, &marker, &p2, r, obs, true, &extra);
                        if r.ctrls.iter().any(|c| c.oid == PAGED_OID) {
                            self.v("paged:final-control", "final result still carries the paging control".to_string());
                        }
                    }
                } else if !sm.failed {
                    if r.rc == 88 && matches!(sm.chain, Some(Chain::EntriesOnly) | Some(Chain::EntriesPaged(_)) | Some(Chain::PagedEntries(_))) && r.refs != sm.refs {
                        self.v("stream:early-finish-refs", format!("finish() before the end: the EntriesOnly adapter had collected {:?} but the result carries {:?}", sm.refs, r.refs));
                    }
                    if r.rc != 88 {
                        self.v(
                            &format!("stream:early-finish-rc:{}", chain_name(&sm.chain)),
                            format!("finish() before the end of the stream returned rc {} {:?} (expected the synthetic 88)", r.rc, r.text),
                        );
                    }
                } else if r.rc != 88 && r.text != sm.marker {
                    self.v("stream:finish-after-error", format!("finish() after a failure returned {:?}", r));
                } else if r.rc == 88 && matches!(sm.chain, Some(Chain::EntriesOnly)) && r.refs != sm.refs {
                    self.v("stream:failed-finish-refs", format!("finish() after a failed next(): the EntriesOnly adapter had collected {:?} but the result carries {:?}", sm.refs, r.refs));
                }
                self.clients[i].sm.state = "Closed";
                self.clients[i].sm.finishes += 1;
                if obs.stream_state.as_deref() != Some("Closed") {
                    self.v("stream:state", format!("state after finish() is {:?}", obs.stream_state));
                }
            }
            other => self.v("call:wrong-shape", format!("client {} finish() returned {:?}", i, other)),
        }
    }

    // ---------------------------------------------------------------- timing oracle (C12)
    fn response_routed_before(&self, marker: &str, t: u64, strictly: bool) -> bool {
        // a complete response (single result, or the next search item) routed by the driver
        for r in &self.server.reqs {
            if r.marker != marker {
                continue;
            }
            if let Some((n, at)) = self.routed.get(&r.id) {
                if *n > 0 && (if strictly { *at < t } else { *at <= t }) {
                    return true;
                }
            }
        }
        false
    }

    /// response frames of the request(s) carrying `marker` that the driver has routed
    fn routed_frames(&self, marker: &str) -> usize {
        self.server.reqs.iter().filter(|r| r.marker == marker).map(|r| self.routed.get(&r.id).map_or(0, |x| x.0)).sum()
    }

    fn judge_timeout(&mut self, i: usize, marker: &str, timeout: Option<u64>, obs: &Obs) {
        let t = match timeout {
            Some(t) => t,
            None => {
                self.v("timing:timeout-without-timer", format!("client {} {} returned Timeout but no timeout was set", i, obs.call));
                return;
            }
        };
        if !self.request_offered(marker, self.clients[i].out_mark) {
            self.timed_out_unsent.insert(marker.to_string());
        }
        let start = obs.t_start.max(self.clients[i].last_poll);
        let deadline_min = start.saturating_add(t);
        if obs.t_end < deadline_min {
            self.v("timing:early", format!("client {} {} timed out at {} before its deadline {}", i, obs.call, obs.t_end, deadline_min));
        }
        if matches!(self.scn.clients[i].script.get(0), Some(_)) && obs.call.starts_with("Single") && self.response_routed_before(marker, obs.t_end, false) {
            self.v("timing:timeout-despite-response", format!("client {} {}: returned Timeout although its response had been routed earlier", i, obs.call));
        }
    }

    /// Has the driver taken a request carrying `marker` off its queue since the client side had
    /// written `from` bytes? It has exactly if the request's bytes were presented to the transport
    /// (accepted, or offered to a write that stalled or failed).
    fn request_offered(&self, marker: &str, from: usize) -> bool {
        let io = self.io.lock().unwrap();
        let mut bytes: Vec<u8> = io.out[from.min(io.out.len())..].to_vec();
        bytes.extend_from_slice(&io.offered);
        drop(io);
        match msg::split_frames(&bytes) {
            Ok((frames, _)) => frames.iter().any(|f| Msg::from_tlv(f, &mut vec![]).map_or(false, |m| marker_of(&m.op) == marker)),
            Err(_) => self.server.reqs.iter().any(|r| r.marker == marker),
        }
    }

    fn check_timing_pending(&mut self) {
        let mut found = vec![];
        for (i, c) in self.clients.iter().enumerate() {
            if let (Some(task), Some((call, t0))) = (&c.task, &c.cur) {
                if let Some(t) = self.cur_timeout(c).filter(|t| *t != u64::MAX) {
                    // search()/paged calls re-arm internally: the reference is the last poll
                    let _ = call;
                    let base = c.last_poll.max(*t0);
                    if self.now >= base + t && !task.woken() {
                        found.push((i, format!("{:?}", call), base + t));
                    }
                }
            }
        }
        for (i, call, d) in found {
            self.v("timing:missed-deadline", format!("client {} {} still pending and not woken at {} (deadline {})", i, call, self.now, d));
        }
    }

    // ---------------------------------------------------------------- terminal / quiescence oracles
    pub fn quiescent(&self) -> bool {
        let io = self.io.lock().unwrap();
        self.clients.iter().all(|c| c.task.is_none())
            && self.driver.as_ref().map_or(true, |d| !d.woken())
            && io.avail.is_empty()
            && io.staged.is_empty()
            && io.write_waker.is_none()
            && self.clients.iter().all(|c| !c.has_stream || c.stream_closed)
            && self.clients.iter().all(|c| c.inner.as_ref().map_or(true, |x| !x.2))
    }

    pub fn check_quiescent(&mut self) {
        if !self.scn.oracles.leak || !self.quiescent() || !self.driver_alive() || self.driver_polls == 0 {
            return;
        }
        // an operation whose caller went away (future dropped, stream dropped without finish())
        // is still outstanding until the server has finished answering it: only then must
        // nothing be left of it
        for m in &self.cancelled_markers {
            let seen: Vec<&SReq> = self.server.reqs.iter().filter(|r| r.marker == *m).collect();
            // (a request the server has not seen at a quiescent point never will be seen)
            if seen.iter().any(|r| !r.done && !r.abandoned) {
                return;
            }
        }
        if let Some(p) = &self.probe {
            let (_, ids) = msgmap_of(p);
            if !ids.is_empty() {
                let culprit = self.classify_leak(&ids);
                self.v(&format!("leak:{}:ids:{}", self.leak_cause(&ids), culprit), format!("no operation outstanding but message IDs {:?} are still reserved ({})", ids, culprit));
            }
        }
        if let Some((r, s)) = self.gauges.clone() {
            if !r.is_empty() {
                let c = self.classify_leak(&r);
                self.v(&format!("leak:{}:resultmap:{}", self.leak_cause(&r), c), format!("no operation outstanding but the result map still holds {:?} ({})", r, c));
            }
            if !s.is_empty() {
                let c = self.classify_leak(&s);
                self.v(&format!("leak:{}:searchmap:{}", self.leak_cause(&s), c), format!("no operation outstanding but the search map still holds {:?} ({})", s, c));
            }
        }
    }

    fn leak_cause(&self, ids: &[i32]) -> &'static str {
        let all_unsent = !ids.is_empty()
            && ids.iter().all(|id| self.server.reqs.iter().any(|r| r.id == *id as i64 && self.timed_out_unsent.contains(&r.marker)));
        if all_unsent {
            "scrub-overtook-request"
        } else {
            "plain"
        }
    }

    /// which kind of operation (and how it ended) owns the leaked IDs
    fn classify_leak(&self, ids: &[i32]) -> String {
        let mut kinds = BTreeSet::new();
        for id in ids {
            let mut k = "unknown".to_string();
            for r in &self.server.reqs {
                if r.id == *id as i64 {
                    k = match &r.kind {
                        RK::Single(_) => {
                            if r.abandoned {
                                "single-abandoned".into()
                            } else if r.done {
                                "single-answered".into()
                            } else {
                                "single-unanswered".into()
                            }
                        }
                        RK::Search => {
                            let chain = self
                                .clients
                                .iter()
                                .find(|c| c.sm.marker == r.marker)
                                .map(|c| chain_name(&c.sm.chain))
                                .unwrap_or_else(|| "search()".to_string());
                            format!("search-{}-{}{}", chain, if r.done { "done" } else { "open" }, if r.abandoned { "-abandoned" } else { "" })
                        }
                        RK::Abandon(_) => "abandon-op".into(),
                        RK::Unbind => "unbind-op".into(),
                    };
                }
            }
            kinds.insert(k);
        }
        kinds.into_iter().collect::<Vec<_>>().join("+")
    }

    pub fn check_terminal(&mut self) {
        let o = self.scn.oracles.clone();
        if o.term {
            let pend: Vec<(usize, String)> =
                self.clients.iter().enumerate().filter(|(_, c)| c.task.is_some()).map(|(i, c)| (i, format!("{:?}", c.cur.as_ref().unwrap().0))).collect();
            let (werrs, rd_fault) = {
                let io = self.io.lock().unwrap();
                (io.write_errors, io.eof || io.read_err)
            };
            let failure_observable = rd_fault || self.bad_tail_kills || self.fault_done.map_or(false, |f| matches!(f.0, FaultKind::ShortGarbage | FaultKind::InnerOverrun | FaultKind::WideId)) || werrs > 0 || self.server.saw_unbind || self.dropped_all || !self.driver_alive();
            for (i, call) in pend {
                if !failure_observable && self.cur_marker(i).map_or(false, |m| self.plan(&m).silent) {
                    continue; // a silent server and a healthy connection: waiting is correct
                }
                let why = match &self.fault_done {
                    Some((f, _)) => format!("after-{:?}", f),
                    None if self.server.saw_unbind => "after-unbind".into(),
                    None if self.dropped_all => "after-drop".into(),
                    None if !self.driver_alive() => "driver-gone".into(),
                    None => "no-fault".into(),
                };
                let kind = self.clients[i].cur.as_ref().map(|c| call_kind(&c.0)).unwrap_or("?");
                self.v(&format!("term:hang:{}:{}", kind, why), format!("nothing can happen any more but client {} is still waiting in {}", i, call));
            }
            let conn_over = self.fault_done.map_or(false, |f| matches!(f.0, FaultKind::Eof | FaultKind::Reset | FaultKind::Garbage | FaultKind::ShortGarbage | FaultKind::InnerOverrun | FaultKind::WideId))
                || self.bad_tail_kills
                || self.server.saw_unbind
                || self.dropped_all;
            // (a server that never closes after an unbind is outside the fairness assumption:
            // there the driver may legitimately keep running until the handles are dropped)
            let unfair = self.server.saw_unbind && !self.scn.server_closes_on_unbind && !self.dropped_all && self.fault_done.is_none();
            if conn_over && self.driver_alive() && !unfair {
                self.v("term:driver-alive", format!("the connection is over ({:?}, unbind={}, dropped={}) but drive() has not returned", self.fault_done, self.server.saw_unbind, self.dropped_all));
            }
            let io = self.io.lock().unwrap();
            let (sd, dr) = (io.shutdown, io.dropped);
            drop(io);
            if (self.server.saw_unbind || self.dropped_all) && !sd && !dr {
                self.v("term:transport-open", "after unbind / last handle dropped the transport was neither shut down nor dropped".to_string());
            }
        }
        if o.route || o.stream || o.paged {
            // every scripted call must have completed; complete reads saw everything
            if self.fault_done.is_none() && !self.server.saw_unbind {
                for i in 0..self.clients.len() {
                    if self.clients[i].task.is_some() {
                        let c = format!("{:?}", self.clients[i].cur.as_ref().unwrap().0);
                        let silent = self.cur_marker(i).map_or(false, |m| self.plan(&m).silent || self.plan(&m).silent_after_pages > 0 || self.abandoned_marker(&m));
                        if !silent && self.driver_alive() {
                            self.v("term:incomplete", format!("terminal state but client {} still waits in {}", i, c));
                        }
                    }
                }
            }
        }
    }

    fn cur_marker(&self, i: usize) -> Option<String> {
        match &self.clients[i].cur {
            Some((Call::Single { marker, .. }, _)) | Some((Call::Search { marker, .. }, _)) | Some((Call::Start { marker, .. }, _)) => Some(marker.clone()),
            Some((Call::SingleViaStream { marker, .. }, _)) | Some((Call::StartInner { marker }, _)) | Some((Call::SearchOpts { marker }, _)) => Some(marker.clone()),
            Some((Call::NextInner, _)) | Some((Call::FinishInner, _)) => self.clients[i].inner.as_ref().map(|x| x.0.clone()),
            Some((Call::Next, _)) | Some((Call::Finish, _)) => Some(self.clients[i].sm.marker.clone()),
            _ => None,
        }
    }

    // ---------------------------------------------------------------- canonical state
    pub fn canon(&self) -> String {
        use std::fmt::Write;
        let mut s = String::with_capacity(1024);
        for (i, c) in self.clients.iter().enumerate() {
            let _ = write!(
                s,
                "C{}[{} {} {:?} w{} k{} {:?} lp{}|",
                i,
                c.pos,
                c.free_left,
                c.cur,
                c.task.as_ref().map_or(false, |t| t.woken()),
                c.kit.as_ref().map_or(0, |k| k.ldap.is_some() as u8 + 2 * k.stream.is_some() as u8),
                c.sm.state,
                if c.task.is_some() && self.cur_timeout(c).is_some() { c.last_poll } else { 0 }
            );
            if c.task.is_some() {
                let _ = write!(s, "om{}|d{}|id{}|", c.out_mark, c.dead_at_start, c.id_at_start);
            }
            let _ = write!(s, "in{:?}|", c.inner);
            for o in &c.log {
                let _ = write!(s, "{:?};", o);
            }
            s.push(']');
        }
        let _ = write!(
            s,
            "D[{} w{} {:?}]",
            match &self.dstatus {
                DriverStatus::Running => "run".to_string(),
                DriverStatus::Done(r) => format!("done{:?}", r),
                DriverStatus::Panicked(m) => format!("panic{}", m),
            },
            self.driver.as_ref().map_or(false, |d| d.woken()),
            self.gauges
        );
        if let Some(p) = &self.probe {
            let _ = write!(s, "M{:?}", msgmap_of(p));
        }
        {
            let io = self.io.lock().unwrap();
            let _ = write!(
                s,
                "IO[a{} s{} e{} r{} sd{} dr{} w{:?} ww{} tail{} we{}]",
                io.avail.len(),
                io.staged.len(),
                io.eof,
                io.read_err,
                io.shutdown,
                io.dropped,
                io.wmode,
                io.write_waker.is_some(),
                io.out.len() - self.server.parsed,
                io.write_errors
            );
        }
        for r in &self.server.reqs {
            let _ = write!(s, "R[{} {} {:?} s{} d{} a{} {:?}]", r.id, r.marker, r.kind, r.sent, r.done, r.abandoned, r.page);
        }
        let _ = write!(
            s,
            "S[{:?} {:?} {:?} {:?}]T{} t{} f{} {:?} da{} V{} inj{}",
            (&self.server.bogus_left, &self.server.intermediate_for), self.server.last_answered_single, self.server.last_done_search, self.server.pages_served, self.now, self.ticks_left, self.faults_left, self.fault_done, self.dropped_all,
            self.viol.len(),
            self.injected
        );
        let _ = write!(s, "RT{:?}U{:?}X{:?}L{:?}", self.routed, self.timed_out_unsent, self.cancelled_markers, self.last_emitted);
        let _ = write!(s, "BK{}AA{:?}", self.bad_tail_kills as u8, self.abandon_acked);
        s
    }

    pub fn pending_clients(&self) -> Vec<usize> {
        self.clients.iter().enumerate().filter(|(_, c)| c.task.is_some()).map(|(i, _)| i).collect()
    }

    pub fn logs(&self) -> Vec<Vec<Obs>> {
        self.clients.iter().map(|c| c.log.clone()).collect()
    }
}

fn o_stream(s: &Scenario) -> bool {
    s.oracles.stream
}

pub fn chain_name(c: &Option<Chain>) -> String {
    match c {
        None => "none".into(),
        Some(Chain::Direct) => "direct".into(),
        Some(Chain::EntriesOnly) => "entriesonly".into(),
        Some(Chain::Paged(_)) => "paged".into(),
        Some(Chain::EntriesPaged(_)) => "entries+paged".into(),
        Some(Chain::FailAfter(_)) => "failing-custom-adapter".into(),
        Some(Chain::PagedEntries(_)) => "paged+entries".into(),
        Some(Chain::Probe) => "probing-custom-adapter".into(),
    }
}

pub fn call_kind(c: &Call) -> &'static str {
    match c {
        Call::Single { .. } => "single",
        Call::Search { .. } => "search()",
        Call::Start { .. } | Call::StartOwnPaging { .. } => "start",
        Call::Next => "next",
        Call::Finish => "finish",
        Call::Abandon(_) => "abandon",
        Call::Unbind => "unbind",
        Call::DropHandle => "drop",
        Call::SearchOpts { .. } => "search()",
        Call::DropStream => "drop-stream",
        Call::ExplicitStart => "explicit-start",
        Call::SingleViaStream { .. } => "single-via-stream",
        Call::StartInner { .. } => "start-inner",
        Call::NextInner => "next-inner",
        Call::FinishInner => "finish-inner",
    }
}

#[allow(dead_code)]
fn unused(_: (CTXMARK,)) {}
#[allow(dead_code)]
struct CTXMARK(u8);
#[allow(dead_code)]
const _C: u8 = CTX;
