//! Engine E1: explicit-state model checking of the real connection (stateright over
//! re-executed real code).
pub mod memio;
pub mod model;
pub mod scenarios;
pub mod types;
pub mod world;

use crate::common::{cov, Reporter, Tier};
use serde_json::json;
use std::sync::Arc;
use types::Scenario;

pub struct E1Totals {
    pub states: u64,
    pub transitions: u64,
    pub terminals: u64,
    pub terminal_logs: u64,
    pub max_depth: u64,
    pub quiescent: u64,
    pub multi: u64,
    pub per_scenario: Vec<serde_json::Value>,
    pub samples: Vec<serde_json::Value>,
    pub actions: std::collections::BTreeMap<String, u64>,
    pub capped: Vec<String>,
    pub audit: serde_json::Value,
}

pub fn explore_all(rep: &Arc<Reporter>, scns: Vec<Scenario>, dfs: bool) -> E1Totals {
    let threads = std::thread::available_parallelism().map(|x| x.get()).unwrap_or(8).min(16);
    let mut t = E1Totals {
        states: 0,
        transitions: 0,
        terminals: 0,
        terminal_logs: 0,
        max_depth: 0,
        quiescent: 0,
        multi: 0,
        per_scenario: vec![],
        samples: vec![],
        actions: Default::default(),
        capped: vec![],
        audit: serde_json::Value::Null,
    };
    // phase 1: scenarios run concurrently, each single-threaded, with a state cap; phase 2: the
    // ones that hit the cap are re-run from scratch one at a time on all threads (no cap).
    let all_scns: Vec<Scenario> = scns.clone();
    let queue = std::sync::Mutex::new(scns.into_iter().enumerate().collect::<Vec<_>>());
    let results = std::sync::Mutex::new(vec![]);
    let heavy = std::sync::Mutex::new(vec![]);
    let _ = dfs;
    std::thread::scope(|sc| {
        for _ in 0..threads {
            sc.spawn(|| loop {
                let item = queue.lock().unwrap().pop();
                let (idx, scn) = match item {
                    Some(x) => x,
                    None => break,
                };
                let name = scn.name.clone();
                let t0 = std::time::Instant::now();
                match model::explore(scn.clone(), rep.clone(), 1, false, true, Some(30000)) {
                    Some(r) => results.lock().unwrap().push((idx, name, r, t0.elapsed().as_secs_f64())),
                    None => heavy.lock().unwrap().push((idx, scn)),
                }
            });
        }
    });
    // hard cap on generated states per scenario (memory: a state carries its path); a capped
    // scenario is reported as such and the run is not called exhaustive
    let hard_cap: usize = std::env::var("VERIF_E1_STATE_CAP").ok().and_then(|s| s.parse().ok()).unwrap_or(40_000_000);
    for (idx, scn) in heavy.into_inner().unwrap() {
        let name = scn.name.clone();
        let t0 = std::time::Instant::now();
        match model::explore(scn.clone(), rep.clone(), threads, false, true, Some(hard_cap)) {
            Some(r) => results.lock().unwrap().push((idx, name, r, t0.elapsed().as_secs_f64())),
            None => {
                t.capped.push(name.clone());
                eprintln!("note: scenario {} exceeded {} generated states and was stopped (not exhaustive)", name, hard_cap);
            }
        }
    }
    let mut results = results.into_inner().unwrap();
    results.sort_by_key(|x| x.0);
    t.audit = canon_audit(rep, &all_scns, &results);
    for (_, name, r, secs) in results {
        t.states += r.states;
        t.transitions += r.transitions;
        t.terminals += r.terminals;
        t.terminal_logs += r.distinct_terminal_logs;
        t.max_depth = t.max_depth.max(r.max_depth);
        t.quiescent += r.quiescent_states;
        t.multi += r.multi_outstanding_states;
        for (k, v) in &r.action_counts {
            *t.actions.entry(k.clone()).or_insert(0) += v;
        }
        t.per_scenario.push(json!({"scenario": name, "states": r.states, "transitions": r.transitions, "terminal_states": r.terminals,
            "distinct_terminal_logs": r.distinct_terminal_logs, "max_depth": r.max_depth, "wall_s": secs, "stopped_on_violation": r.found}));
        if t.samples.len() < 4 {
            if let Some(p) = r.samples.first() {
                t.samples.push(json!({"scenario": name, "terminal_path": p}));
            }
        }
    }
    t
}

/// Self-check of the state de-duplication: small scenarios are explored a second time as a
/// tree (a state per path, nothing merged) and must produce exactly the terminal logs and
/// violation keys of the de-duplicated search. Violations found on the way are reported like
/// any other (they are paths on the real code); a difference without a violation is recorded
/// in the evidence and printed as a note.
fn canon_audit(rep: &Arc<Reporter>, scns: &[Scenario], results: &[(usize, String, model::RunResult, f64)]) -> serde_json::Value {
    if std::env::var("VERIF_E1_NO_AUDIT").is_ok() {
        return json!({"disabled": true});
    }
    let max_states: u64 = std::env::var("VERIF_E1_AUDIT_STATES").ok().and_then(|s| s.parse().ok()).unwrap_or(match rep.tier {
        Tier::Quick => 130,
        Tier::Thorough => 300,
    });
    // a tree state carries its whole path: at most 40 000 paths per tree (16 trees at a time
    // stay below 2 GB), and a budget for the whole audit; the smallest scenarios go first
    let path_cap: usize = 40_000;
    let budget: u64 = match rep.tier {
        Tier::Quick => 400_000,
        Tier::Thorough => 800_000,
    };
    let mut picked: Vec<(usize, &model::RunResult)> = results.iter().filter(|r| r.2.states <= max_states && !r.2.found).map(|r| (r.0, &r.2)).collect();
    // (popped from the back: largest last in the vector = smallest first out)
    picked.sort_by(|a, b| b.1.states.cmp(&a.1.states));
    let spent = std::sync::atomic::AtomicU64::new(0);
    let queue = std::sync::Mutex::new(picked.clone());
    let out = std::sync::Mutex::new((0u64, 0u64, 0u64, Vec::<String>::new())); // audited, paths, skipped, mismatches
    let threads = std::thread::available_parallelism().map(|x| x.get()).unwrap_or(8).min(16);
    std::thread::scope(|sc| {
        for _ in 0..threads {
            sc.spawn(|| loop {
                let item = queue.lock().unwrap().pop();
                let (idx, base) = match item {
                    Some(x) => x,
                    None => break,
                };
                if spent.load(std::sync::atomic::Ordering::Relaxed) >= budget {
                    out.lock().unwrap().2 += 1;
                    continue;
                }
                let scn = scns[idx].clone();
                let name = scn.name.clone();
                match model::explore(scn, rep.clone(), 1, false, false, Some(path_cap)) {
                    None => {
                        spent.fetch_add(path_cap as u64, std::sync::atomic::Ordering::Relaxed);
                        out.lock().unwrap().2 += 1
                    }
                    Some(r) => {
                        spent.fetch_add(r.states, std::sync::atomic::Ordering::Relaxed);
                        let mut o = out.lock().unwrap();
                        o.0 += 1;
                        o.1 += r.states;
                        if !r.found && (r.terminal_log_set != base.terminal_log_set || r.viol_keys != base.viol_keys) {
                            let extra: Vec<String> = r
                                .terminal_log_paths
                                .iter()
                                .filter(|(d, _)| !base.terminal_log_set.contains(d))
                                .take(2)
                                .map(|(_, p)| format!("{:?}", p))
                                .collect();
                            o.3.push(format!(
                                "{}: tree search found {} terminal logs / keys {:?}, de-duplicated search {} / {:?}; paths to logs only the tree search reached: {:?}",
                                name,
                                r.terminal_log_set.len(),
                                r.viol_keys,
                                base.terminal_log_set.len(),
                                base.viol_keys,
                                extra
                            ));
                        }
                    }
                }
            });
        }
    });
    let (audited, paths, skipped, mism) = out.into_inner().unwrap();
    for m in &mism {
        eprintln!("note: state de-duplication audit: {}", m);
    }
    json!({"scenarios_re_explored_without_merging": audited, "paths": paths, "skipped_tree_too_large_or_budget_spent": skipped, "path_budget": budget,
           "eligible_max_states": max_states, "mismatches": mism})
}

pub fn finish_e1(rep: Arc<Reporter>, t: E1Totals, extra: Vec<(&str, serde_json::Value)>, assumptions: Vec<String>) -> i32 {
    let mut c = cov(vec![
        ("states", json!(t.states)),
        ("transitions", json!(t.transitions)),
        ("traces_validated_against_impl", json!(t.transitions)),
        ("samples", json!(t.samples)),
        ("terminal_states", json!(t.terminals)),
        ("distinct_terminal_logs", json!(t.terminal_logs)),
        ("max_depth", json!(t.max_depth)),
        ("quiescent_states_checked", json!(t.quiescent)),
        ("states_with_two_or_more_outstanding_ids", json!(t.multi)),
        ("transitions_by_action", json!(t.actions)),
        ("scenarios", json!(t.per_scenario)),
        ("exhaustive", json!(t.capped.is_empty())),
        ("scenarios_stopped_at_state_cap", json!(t.capped)),
        ("deduplication_audit", t.audit.clone()),
        ("explanation", json!("every state is the real ldap3 connection after a history of scheduler/server/network/clock/fault actions; every transition re-executes the history on the real code (so each transition is a trace validated against the implementation); states are de-duplicated by a digest of all observable state; search by stateright")),
    ]);
    for (k, v) in extra {
        c.insert(k.to_string(), v);
    }
    rep.finish("model_checking", c, assumptions)
}

pub fn e1_assumptions() -> Vec<String> {
    vec![
        "tokio's channels, timer wheel and Framed are correct".into(),
        "the in-memory transport behaves like a stream socket (bound to the real socket path by the conformance replay)".into(),
        "bounds: the listed scenarios only (<= 4 handles, <= 3 stream items, one fault per run)".into(),
    ]
}

pub fn run(prop: &str, tier: Tier) -> i32 {
    let rep = Arc::new(Reporter::new(prop, tier));
    model::spawn_watchdog(rep.clone(), std::time::Duration::from_secs(20));
    let dfs = false;
    let scns = match prop {
        "C01" => {
            let mut v = scenarios::c01(tier);
            v.extend(scenarios::c01_presets());
            v
        }
        "C13" => scenarios::c13(tier),
        "C04" => scenarios::c04(tier),
        "C05" => scenarios::c05(tier),
        // (C10 and C16: the scenario sets that used to be the thorough tier's run in seconds)
        "C10" => scenarios::c10(Tier::Thorough, tier == Tier::Thorough),
        "C12" => scenarios::c12(tier),
        "C16" => scenarios::c16(Tier::Thorough, tier == Tier::Thorough),
        _ => panic!("no e1 scenarios for {}", prop),
    };
    // debugging aid: VERIF_E1_ONLY=<substring> restricts the run to matching scenarios
    let scns: Vec<Scenario> = match std::env::var("VERIF_E1_ONLY") {
        Ok(f) if !f.is_empty() => scns.into_iter().filter(|s| s.name.contains(&f)).collect(),
        _ => scns,
    };
    let t = explore_all(&rep, scns, dfs);
    let mut extra = vec![];
    // long single runs under fixed scheduling policies (counts and sizes beyond the search's reach)
    {
        let runs = scenarios::long_runs(prop);
        let only = std::env::var("VERIF_E1_ONLY").unwrap_or_default();
        let runs: Vec<_> = runs.into_iter().filter(|r| only.is_empty() || r.0.name.contains(&only)).collect();
        let report = std::sync::Mutex::new(vec![]);
        let queue = std::sync::Mutex::new(runs);
        let threads = std::thread::available_parallelism().map(|x| x.get()).unwrap_or(8).min(16);
        std::thread::scope(|sc| {
            for _ in 0..threads {
                sc.spawn(|| loop {
                    let item = queue.lock().unwrap().pop();
                    let (scn, policy) = match item {
                        Some(x) => x,
                        None => break,
                    };
                    let scn = Arc::new(scn);
                    let t0 = std::time::Instant::now();
                    let (o, path) = model::run_canonical(&scn, policy, 3_000_000);
                    for (k, d) in &o.viol {
                        // (paths of long runs are long: the replay file keeps the first 20000 actions)
                        let shown: Vec<types::Action> = path.iter().take(20_000).cloned().collect();
                        rep.violation(k, &format!("[{} / {:?}] {}", scn.name, policy, d), json!({"engine": "e1", "scenario": &*scn, "path": shown, "policy": format!("{:?}", policy), "steps": path.len()}));
                    }
                    let calls: usize = o.logs.iter().map(|l| l.len()).sum();
                    report.lock().unwrap().push(json!({"scenario": scn.name, "policy": format!("{:?}", policy), "steps": path.len(), "calls_completed": calls,
                        "ran_to_the_end": o.enabled.is_empty(), "driver": o.driver, "wall_s": t0.elapsed().as_secs_f64()}));
                });
            }
        });
        let mut r = report.into_inner().unwrap();
        r.sort_by(|a, b| a["scenario"].as_str().cmp(&b["scenario"].as_str()));
        extra.push(("long_runs", json!(r)));
    }
    if prop == "C05" {
        // OS-thread interleavings around the ID table (loom)
        use crate::e2::{explore, Shape};
        let mut lanes = vec![];
        let plan: Vec<(Shape, Option<usize>)> = if tier == Tier::Thorough {
            vec![(Shape::TwoAlloc, None), (Shape::TwoPlusOne, None), (Shape::AllocVsRelease, None), (Shape::AllocVsReleaseAtWrap, None), (Shape::ThreeAlloc, Some(4))]
        } else {
            vec![(Shape::TwoAlloc, Some(3)), (Shape::TwoPlusOne, Some(3)), (Shape::AllocVsRelease, Some(3)), (Shape::AllocVsReleaseAtWrap, Some(3)), (Shape::ThreeAlloc, Some(2))]
        };
        let mut total = 0u64;
        for (shape, bound) in plan {
            let r = explore(shape, bound);
            total += r.executions;
            for v in &r.violations {
                rep.violation(&format!("ids:threads:{:?}", shape), v, json!({"engine":"e2","shape":format!("{:?}", shape),"preemption_bound":bound}));
            }
            lanes.push(json!({"shape": format!("{:?}", shape), "preemption_bound": bound, "executions": r.executions, "distinct_outcomes": r.distinct_outcomes, "sample_outcome": r.sample}));
        }
        extra.push(("loom_lanes", json!(lanes)));
        extra.push(("loom_executions", json!(total)));
    }
    if prop == "C04" {
        let n = crate::e4::c04real::run(&rep);
        extra.push(("real_socket_transport_closure_cases", json!(n)));
    }
    finish_e1(rep, t, extra, e1_assumptions())
}

/// Re-execute a replay file twice and print the observations.
pub fn replay(v: &serde_json::Value) -> i32 {
    if v["replay"]["engine"] == "c04real" {
        println!("{}", serde_json::to_string_pretty(&v["replay"]).unwrap());
        println!("(real-socket lane of C04: re-run ./check C04 quick; transport and variant above identify the case)");
        return 0;
    }
    if v["replay"]["engine"] == "e2" {
        println!("{}", serde_json::to_string_pretty(&v["replay"]).unwrap());
        println!("(loom lane: re-run ./check C05 quick; loom prints no schedule for recorded violations, the shape and bound above identify the lane)");
        return 0;
    }
    let scn: Scenario = serde_json::from_value(v["replay"]["scenario"].clone()).expect("scenario");
    let path: Vec<types::Action> = serde_json::from_value(v["replay"]["path"].clone()).expect("path");
    let scn = Arc::new(scn);
    let a = model::run_path(&scn, &path, false);
    let b = model::run_path(&scn, &path, false);
    if a.canon != b.canon {
        println!("verif-machinery: replay is not deterministic");
        return 2;
    }
    println!("scenario: {}", scn.name);
    for (i, p) in path.iter().enumerate() {
        println!("  {:2}. {:?}", i, p);
    }
    for (i, l) in a.logs.iter().enumerate() {
        for o in l {
            println!("client {}: {} -> {:?} [t {}..{}, last_id {}, stream {:?}]", i, o.call, o.ret, o.t_start, o.t_end, o.last_id, o.stream_state);
        }
    }
    println!("driver: {}", a.driver);
    println!("enabled afterwards: {:?}", a.enabled);
    for (k, d) in &a.viol {
        println!("violation {} :: {}", k, d);
    }
    if a.viol.is_empty() {
        0
    } else {
        1
    }
}
