//! Engine E4: exhaustive enumeration of configuration x scripted server behaviour over
//! loopback sockets (real LdapConnAsync / LdapConn constructors, real TCP / Unix / TLS).
pub mod c04real;
pub mod c17;
pub mod c18;

use crate::lanes::util::{respond, Behave};
use crate::vcore::msg::{self, Msg};
use std::io::{Read, Write};
use std::sync::{Arc, Mutex};
use std::time::Duration;

#[derive(Clone, Debug)]
pub struct Contact {
    pub listener: String,
    /// everything read on that connection
    pub bytes: Vec<u8>,
    /// the client's address (TCP listeners)
    pub peer: String,
}

pub type Contacts = Arc<Mutex<Vec<Contact>>>;

#[derive(Clone, Copy, Debug, PartialEq, Eq)]
pub enum Mode {
    /// answers every LDAP request with success
    Responder,
    /// reads and never answers
    Silent,
    /// closes as soon as the connection is accepted
    CloseAtOnce,
    /// reads the first bytes, then closes without answering
    ReadThenClose,
}

fn register(contacts: &Contacts, name: &str, peer: String) -> usize {
    let mut c = contacts.lock().unwrap();
    c.push(Contact { listener: name.to_string(), bytes: vec![], peer });
    c.len() - 1
}

fn serve<S: Read + Write>(mut s: S, idx: usize, mode: Mode, contacts: Contacts) {
    if mode == Mode::CloseAtOnce {
        return;
    }
    let mut all: Vec<u8> = vec![];
    let mut parsed = 0usize;
    let mut buf = [0u8; 4096];
    loop {
        let n = match s.read(&mut buf) {
            Ok(0) | Err(_) => break,
            Ok(n) => n,
        };
        all.extend_from_slice(&buf[..n]);
        contacts.lock().unwrap()[idx].bytes = all.clone();
        if mode == Mode::Silent {
            continue;
        }
        if mode == Mode::ReadThenClose {
            return;
        }
        let (frames, used) = match msg::split_frames(&all[parsed..]) {
            Ok(x) => x,
            Err(_) => break, // not LDAP (e.g. a TLS ClientHello): close
        };
        parsed += used;
        for f in frames {
            if let Ok(m) = Msg::from_tlv(&f, &mut vec![]) {
                let (bytes, close) = respond(&m, Behave::Rc(0), 0);
                let _ = s.write_all(&bytes);
                if close {
                    return;
                }
            } else {
                return;
            }
        }
    }
}

/// TCP listener on `addr` (port 0 = ephemeral); returns the bound port, or None if it cannot
/// bind. A connection is registered as a contact by the accept loop itself, in accept order,
/// before its serving thread starts.
pub fn tcp_listener(addr: &str, name: &str, mode: Mode, contacts: Contacts) -> Option<u16> {
    let l = std::net::TcpListener::bind(addr).ok()?;
    let port = l.local_addr().ok()?.port();
    let name = name.to_string();
    std::thread::spawn(move || {
        for s in l.incoming().flatten() {
            let _ = s.set_read_timeout(Some(Duration::from_secs(20)));
            let idx = register(&contacts, &name, s.peer_addr().map(|a| a.to_string()).unwrap_or_default());
            let c = contacts.clone();
            std::thread::spawn(move || serve(s, idx, mode, c));
        }
    });
    Some(port)
}

pub fn unix_listener(path: &str, name: &str, mode: Mode, contacts: Contacts) -> bool {
    let _ = std::fs::remove_file(path);
    let l = match std::os::unix::net::UnixListener::bind(path) {
        Ok(l) => l,
        Err(_) => return false,
    };
    let name = name.to_string();
    std::thread::spawn(move || {
        for s in l.incoming().flatten() {
            let _ = s.set_read_timeout(Some(Duration::from_secs(20)));
            let idx = register(&contacts, &name, String::new());
            let c = contacts.clone();
            std::thread::spawn(move || serve(s, idx, mode, c));
        }
    });
    true
}

/// serve one pre-connected stream (the other end is handed to the client through std_stream);
/// registered before this returns
pub fn serve_stream<S: Read + Write + Send + 'static>(s: S, name: &str, mode: Mode, contacts: Contacts) {
    let idx = register(&contacts, name, String::new());
    std::thread::spawn(move || serve(s, idx, mode, contacts));
}

pub const FENCE: &[u8] = b"FENCE-not-ldap";

#[derive(Clone, Debug)]
pub enum FenceTarget {
    Tcp(String),
    Unix(String),
}

/// Wait until every connection made to the listed listeners so far has been registered: one
/// marker connection per listener (registration is in accept order), recognised by the
/// client's address (TCP) or by the bytes it sends (Unix); recognised markers are relabelled
/// "fence" so that nobody counts them as contacts.
pub fn fence(targets: &[FenceTarget], contacts: &Contacts) {
    for t in targets {
        let t0 = std::time::Instant::now();
        // (client ports are reused over a run: only contacts registered from now on can be the marker)
        let from = contacts.lock().unwrap().len();
        match t {
            FenceTarget::Tcp(a) => {
                let s = match std::net::TcpStream::connect(a) {
                    Ok(s) => s,
                    Err(_) => continue,
                };
                let me = s.local_addr().map(|x| x.to_string()).unwrap_or_default();
                loop {
                    {
                        let mut c = contacts.lock().unwrap();
                        if let Some(x) = c.iter_mut().skip(from).find(|x| x.peer == me) {
                            x.listener = "fence".into();
                            break;
                        }
                    }
                    if t0.elapsed() > Duration::from_secs(10) {
                        panic!("verif-machinery: the fence connection to {} was not registered within 10 s", a);
                    }
                    std::thread::sleep(Duration::from_micros(100));
                }
                drop(s);
            }
            FenceTarget::Unix(p) => {
                let mut s = match std::os::unix::net::UnixStream::connect(p) {
                    Ok(s) => s,
                    Err(_) => continue,
                };
                if s.write_all(FENCE).is_err() {
                    continue;
                }
                loop {
                    {
                        let mut c = contacts.lock().unwrap();
                        if let Some(x) = c.iter_mut().skip(from).find(|x| x.bytes.starts_with(FENCE)) {
                            x.listener = "fence".into();
                            break;
                        }
                    }
                    if t0.elapsed() > Duration::from_secs(10) {
                        panic!("verif-machinery: the fence connection to {} was not registered within 10 s", p);
                    }
                    std::thread::sleep(Duration::from_micros(100));
                }
                drop(s);
            }
        }
    }
}

/// Run `f` on a helper thread; None if it has not returned within `limit` (the thread is left behind).
pub fn with_deadline<T: Send + 'static>(limit: Duration, f: impl FnOnce() -> T + Send + 'static) -> Option<T> {
    let (tx, rx) = std::sync::mpsc::channel();
    std::thread::spawn(move || {
        let _ = tx.send(f());
    });
    rx.recv_timeout(limit).ok()
}

/// Cross-process lock for the fixed loopback ports 389/636 (C17 and C18 both need them for
/// host-less URLs and may run at the same time): a directory holding the owner's PID; a lock
/// whose owner is gone is taken over.
pub struct PortLock(String);

pub fn lock_default_ports() -> PortLock {
    let dir = "/verif/build/.ports.lock".to_string();
    let _ = std::fs::create_dir_all("/verif/build");
    let t0 = std::time::Instant::now();
    loop {
        if std::fs::create_dir(&dir).is_ok() {
            let _ = std::fs::write(format!("{}/pid", dir), std::process::id().to_string());
            return PortLock(dir);
        }
        let owner = std::fs::read_to_string(format!("{}/pid", dir)).ok().and_then(|s| s.trim().parse::<u32>().ok());
        let alive = owner.map_or(t0.elapsed() < Duration::from_secs(2), |p| std::path::Path::new(&format!("/proc/{}", p)).exists());
        if !alive {
            let _ = std::fs::remove_dir_all(&dir);
            continue;
        }
        if t0.elapsed() > Duration::from_secs(900) {
            panic!("verif-machinery: the default-port lock {} is held by live process {:?} for 15 minutes", dir, owner);
        }
        std::thread::sleep(Duration::from_millis(100));
    }
}

impl Drop for PortLock {
    fn drop(&mut self) {
        let _ = std::fs::remove_dir_all(&self.0);
    }
}

pub fn scratch_dir() -> String {
    let d = format!("/verif/build/e4-{}", std::process::id());
    let _ = std::fs::create_dir_all(&d);
    d
}
