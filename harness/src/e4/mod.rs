//! Engine E4: exhaustive enumeration of configuration x scripted server behaviour over
//! loopback sockets (real LdapConnAsync / LdapConn constructors, real TCP / Unix / TLS).
pub mod c04real;
pub mod c17;
pub mod c18;

use crate::lanes::util::{respond, Behave};
use crate::vcore::msg::{self, Msg};
use std::io::{Read, Write};
use std::sync::{Arc, Mutex};
use std::time::Duration;

#[derive(Clone, Debug)]
pub struct Contact {
    pub listener: String,
    /// everything read on that connection
    pub bytes: Vec<u8>,
    /// the client's address (TCP listeners)
    pub peer: String,
}

pub type Contacts = Arc<Mutex<Vec<Contact>>>;

#[derive(Clone, Copy, Debug, PartialEq, Eq)]
pub enum Mode {
    /// answers every LDAP request with success
    Responder,
    /// reads and never answers
    Silent,
    /// closes as soon as the connection is accepted
    CloseAtOnce,
    /// reads the first bytes, then closes without answering
    ReadThenClose,
    /// answers the first request with success after 2.5 s, then reads and never answers again
    SlowAnswerThenSilent,
}

fn register(contacts: &Contacts, name: &str, peer: String) -> usize {
    let mut c = contacts.lock().unwrap();
    c.push(Contact { listener: name.to_string(), bytes: vec![], peer });
    c.len() - 1
}

fn serve<S: Read + Write>(mut s: S, idx: usize, mode: Mode, contacts: Contacts) {
    if mode == Mode::CloseAtOnce {
        return;
    }
    let mut all: Vec<u8> = vec![];
    let mut parsed = 0usize;
    let mut buf = [0u8; 4096];
    loop {
        let n = match s.read(&mut buf) {
            Ok(0) | Err(_) => break,
            Ok(n) => n,
        };
        all.extend_from_slice(&buf[..n]);
        contacts.lock().unwrap()[idx].bytes = all.clone();
        if mode == Mode::Silent {
            continue;
        }
        if mode == Mode::ReadThenClose {
            return;
        }
        if mode == Mode::SlowAnswerThenSilent {
            if parsed == 0 {
                if let Ok((frames, used)) = msg::split_frames(&all) {
                    if let Some(Ok(m)) = frames.first().map(|f| Msg::from_tlv(f, &mut vec![])) {
                        parsed = used;
                        std::thread::sleep(Duration::from_millis(2500));
                        let (bytes, _) = respond(&m, Behave::Rc(0), 0);
                        let _ = s.write_all(&bytes);
                    }
                }
            }
            continue;
        }
        let (frames, used) = match msg::split_frames(&all[parsed..]) {
            Ok(x) => x,
            Err(_) => break, // not LDAP (e.g. a TLS ClientHello): close
        };
        parsed += used;
        for f in frames {
            if let Ok(m) = Msg::from_tlv(&f, &mut vec![]) {
                let (bytes, close) = respond(&m, Behave::Rc(0), 0);
                let _ = s.write_all(&bytes);
                if close {
                    return;
                }
            } else {
                return;
            }
        }
    }
}

enum Lst {
    Tcp(std::net::TcpListener),
    Unix(std::os::unix::net::UnixListener),
}

/// All listeners of one environment, served by one accepting thread ("registrar") that polls
/// them without blocking. A connection is registered as a contact by that thread, before its
/// serving thread starts. The registrar also owns a *fence* listener: when a fence connection
/// arrives it first accepts everything that is waiting on every other listener and only then
/// answers the fence — connections whose handshake had completed before the fence connection
/// was made are therefore registered by the time the fence returns.
pub struct Registrar {
    contacts: Contacts,
    listeners: Vec<(Lst, String, Mode)>,
}

#[derive(Clone, Debug)]
pub struct Fence(String);

impl Registrar {
    pub fn new(contacts: Contacts) -> Registrar {
        Registrar { contacts, listeners: vec![] }
    }

    /// TCP listener on `addr` (port 0 = ephemeral); returns the bound port, or None if it cannot bind.
    pub fn tcp(&mut self, addr: &str, name: &str, mode: Mode) -> Option<u16> {
        let l = std::net::TcpListener::bind(addr).ok()?;
        let port = l.local_addr().ok()?.port();
        l.set_nonblocking(true).ok()?;
        self.listeners.push((Lst::Tcp(l), name.to_string(), mode));
        Some(port)
    }

    pub fn unix(&mut self, path: &str, name: &str, mode: Mode) -> bool {
        let _ = std::fs::remove_file(path);
        match std::os::unix::net::UnixListener::bind(path) {
            Ok(l) => {
                if l.set_nonblocking(true).is_err() {
                    return false;
                }
                self.listeners.push((Lst::Unix(l), name.to_string(), mode));
                true
            }
            Err(_) => false,
        }
    }

    /// Start the accepting thread; the returned handle is the fence.
    pub fn start(self) -> Fence {
        let fl = std::net::TcpListener::bind("127.0.0.1:0").expect("fence listener");
        let faddr = fl.local_addr().expect("fence address").to_string();
        fl.set_nonblocking(true).expect("nonblocking");
        let Registrar { contacts, listeners } = self;
        std::thread::spawn(move || {
            // accept everything that is waiting on the ordinary listeners; true if anything was
            let drain = |contacts: &Contacts| -> bool {
                let mut any = false;
                for (l, name, mode) in &listeners {
                    loop {
                        match l {
                            Lst::Tcp(t) => match t.accept() {
                                Ok((s, peer)) => {
                                    any = true;
                                    let _ = s.set_nonblocking(false);
                                    let _ = s.set_read_timeout(Some(Duration::from_secs(20)));
                                    let idx = register(contacts, name, peer.to_string());
                                    let (c, m) = (contacts.clone(), *mode);
                                    std::thread::spawn(move || serve(s, idx, m, c));
                                }
                                Err(_) => break,
                            },
                            Lst::Unix(u) => match u.accept() {
                                Ok((s, _)) => {
                                    any = true;
                                    let _ = s.set_nonblocking(false);
                                    let _ = s.set_read_timeout(Some(Duration::from_secs(20)));
                                    let idx = register(contacts, name, String::new());
                                    let (c, m) = (contacts.clone(), *mode);
                                    std::thread::spawn(move || serve(s, idx, m, c));
                                }
                                Err(_) => break,
                            },
                        }
                    }
                }
                any
            };
            loop {
                let mut any = drain(&contacts);
                while let Ok((mut f, _)) = fl.accept() {
                    any = true;
                    // everything connected before this fence connection is in some accept queue by now
                    drain(&contacts);
                    let _ = f.set_nonblocking(false);
                    let _ = f.write_all(b"k");
                }
                if !any {
                    std::thread::sleep(Duration::from_micros(150));
                }
            }
        });
        Fence(faddr)
    }
}

impl Fence {
    /// Returns when every connection made to the environment's listeners so far has been registered.
    pub fn wait(&self) {
        let mut s = std::net::TcpStream::connect(&self.0).expect("verif-machinery: fence listener gone");
        let _ = s.set_read_timeout(Some(Duration::from_secs(20)));
        let mut b = [0u8; 1];
        match s.read(&mut b) {
            Ok(1) => {}
            other => panic!("verif-machinery: the fence was not answered within 20 s ({:?})", other),
        }
    }
}

/// serve one pre-connected stream (the other end is handed to the client through std_stream);
/// registered before this returns
pub fn serve_stream<S: Read + Write + Send + 'static>(s: S, name: &str, mode: Mode, contacts: Contacts) {
    let idx = register(&contacts, name, String::new());
    std::thread::spawn(move || serve(s, idx, mode, contacts));
}

/// Run `f` on a helper thread; None if it has not returned within `limit` (the thread is left behind).
pub fn with_deadline<T: Send + 'static>(limit: Duration, f: impl FnOnce() -> T + Send + 'static) -> Option<T> {
    let (tx, rx) = std::sync::mpsc::channel();
    std::thread::spawn(move || {
        let _ = tx.send(f());
    });
    rx.recv_timeout(limit).ok()
}

/// Cross-process lock for the fixed loopback ports 389/636 (C17 and C18 both need them for
/// host-less URLs and may run at the same time): a directory holding the owner's PID; a lock
/// whose owner is gone is taken over.
pub struct PortLock(String);

pub fn lock_default_ports() -> PortLock {
    let dir = "/verif/build/.ports.lock".to_string();
    let _ = std::fs::create_dir_all("/verif/build");
    let t0 = std::time::Instant::now();
    loop {
        if std::fs::create_dir(&dir).is_ok() {
            let _ = std::fs::write(format!("{}/pid", dir), std::process::id().to_string());
            return PortLock(dir);
        }
        let owner = std::fs::read_to_string(format!("{}/pid", dir)).ok().and_then(|s| s.trim().parse::<u32>().ok());
        let alive = owner.map_or(t0.elapsed() < Duration::from_secs(2), |p| std::path::Path::new(&format!("/proc/{}", p)).exists());
        if !alive {
            let _ = std::fs::remove_dir_all(&dir);
            continue;
        }
        if t0.elapsed() > Duration::from_secs(900) {
            panic!("verif-machinery: the default-port lock {} is held by live process {:?} for 15 minutes", dir, owner);
        }
        std::thread::sleep(Duration::from_millis(100));
    }
}

impl Drop for PortLock {
    fn drop(&mut self) {
        let _ = std::fs::remove_dir_all(&self.0);
    }
}

pub fn scratch_dir() -> String {
    let d = format!("/verif/build/e4-{}", std::process::id());
    let _ = std::fs::create_dir_all(&d);
    d
}
