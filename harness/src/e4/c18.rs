//! C18 — connection setup honours the URL and fails cleanly on bad input.

use super::{scratch_dir, serve_stream, tcp_listener, unix_listener, with_deadline, Contacts, Mode};
use crate::common::{catch, cov, Reporter, Tier};
use crate::vcore::ber;
use ldap3::{LdapConn, LdapConnAsync, LdapConnSettings, LdapError, StdStream};
use serde_json::json;
use std::sync::{Arc, Mutex};
use std::time::{Duration, Instant};

#[derive(Clone, Debug, PartialEq, Eq)]
enum Want {
    ParseError,
    UnknownScheme,
    EmptyUnixPath,
    PortInUnixPath,
    Mismatched,
    /// establishment succeeds and a bind round-trips at this listener
    OkAt(String),
    /// the listener is contacted, then establishment fails (TLS against a cleartext server)
    FailAfterContact(String),
    /// nothing listens / the name does not resolve
    ConnectError,
    /// establishment must fail with Timeout within the bound
    Timeout,
}

#[derive(Clone, Copy, Debug, PartialEq, Eq)]
enum Pre {
    None,
    Tcp,
    /// a pre-opened TCP stream whose peer reads and never answers
    TcpSilent,
    Unix,
    Invalid,
}

#[derive(Clone, Debug)]
struct Case {
    url: String,
    starttls: bool,
    pre: Pre,
    timeout_ms: Option<u64>,
    sync_api: bool,
    want: Want,
}

fn err_kind(e: &LdapError) -> &'static str {
    match e {
        LdapError::UrlParsing { .. } => "UrlParsing",
        LdapError::UnknownScheme(_) => "UnknownScheme",
        LdapError::EmptyUnixPath => "EmptyUnixPath",
        LdapError::PortInUnixPath => "PortInUnixPath",
        LdapError::MismatchedStreamType => "MismatchedStreamType",
        LdapError::Io { .. } => "Io",
        LdapError::Timeout { .. } => "Timeout",
        LdapError::NativeTLS { .. } => "NativeTLS",
        LdapError::ResultRecv { .. } => "ResultRecv",
        LdapError::OpSend { .. } => "OpSend",
        LdapError::LdapResult { .. } => "LdapResult",
        _ => "Other",
    }
}

struct Env {
    contacts: Contacts,
    open_port: u16,
    closed_port: u16,
    silent_port: u16,
}

/// outcome of one establishment attempt: Ok(bind worked?) / Err(kind) / panic text
fn attempt(c: &Case, env: &Env) -> (Result<Result<bool, &'static str>, String>, f64) {
    let mut settings = LdapConnSettings::new().set_starttls(c.starttls);
    if let Some(ms) = c.timeout_ms {
        settings = settings.set_conn_timeout(if ms == u64::MAX { Duration::MAX } else { Duration::from_millis(ms) });
    }
    match c.pre {
        Pre::None => {}
        Pre::Invalid => settings = settings.set_std_stream(StdStream::Invalid),
        Pre::Tcp => {
            let l = std::net::TcpListener::bind("127.0.0.1:0").expect("bind");
            let addr = l.local_addr().unwrap();
            let client = std::net::TcpStream::connect(addr).expect("connect");
            let (srv, _) = l.accept().expect("accept");
            serve_stream(srv, "prestream-tcp", Mode::Responder, env.contacts.clone());
            settings = settings.set_std_stream(StdStream::Tcp(client));
        }
        Pre::TcpSilent => {
            let l = std::net::TcpListener::bind("127.0.0.1:0").expect("bind");
            let addr = l.local_addr().unwrap();
            let client = std::net::TcpStream::connect(addr).expect("connect");
            let (srv, _) = l.accept().expect("accept");
            serve_stream(srv, "prestream-tcp-silent", Mode::Silent, env.contacts.clone());
            settings = settings.set_std_stream(StdStream::Tcp(client));
        }
        Pre::Unix => {
            let (a, b) = std::os::unix::net::UnixStream::pair().expect("pair");
            serve_stream(b, "prestream-unix", Mode::Responder, env.contacts.clone());
            settings = settings.set_std_stream(StdStream::Unix(a));
        }
    }
    let url = c.url.clone();
    let sync_api = c.sync_api;
    let t0 = Instant::now();
    let r = catch(move || {
        if sync_api {
            match LdapConn::with_settings(settings, &url) {
                Ok(mut conn) => {
                    let b = conn.with_timeout(Duration::from_secs(2)).simple_bind("cn=probe", "pw");
                    Ok(b.map(|r| r.rc == 0).unwrap_or(false))
                }
                Err(e) => Err(err_kind(&e)),
            }
        } else {
            let rt = tokio::runtime::Builder::new_current_thread().enable_all().build().unwrap();
            rt.block_on(async {
                match LdapConnAsync::with_settings(settings, &url).await {
                    Ok((conn, mut ldap)) => {
                        tokio::spawn(async move {
                            let _ = conn.drive().await;
                        });
                        let b = ldap.with_timeout(Duration::from_secs(2)).simple_bind("cn=probe", "pw").await;
                        Ok(b.map(|r| r.rc == 0).unwrap_or(false))
                    }
                    Err(e) => Err(err_kind(&e)),
                }
            })
        }
    });
    (r, t0.elapsed().as_secs_f64())
}

fn judge(rep: &Reporter, c: &Case, env: &Env) {
    let n0 = env.contacts.lock().unwrap().len();
    let c2 = c.clone();
    let env2 = Env { contacts: env.contacts.clone(), open_port: env.open_port, closed_port: env.closed_port, silent_port: env.silent_port };
    let replay = json!({"engine":"c18","case":format!("{:?}", c)});
    let out = with_deadline(Duration::from_secs(6), move || attempt(&c2, &env2));
    let (r, secs) = match out {
        Some(x) => x,
        None => {
            rep.violation(&format!("setup:hangs:{}", want_kind(&c.want)), &format!("{:?}: connection setup did not return within 6 s", c), replay);
            return;
        }
    };
    std::thread::sleep(Duration::from_millis(1));
    // the server end of a pre-opened stream registers itself when the case is set up; only
    // listeners the library connected to by itself count as "contacted" for the error cases
    let all_new: Vec<String> = env.contacts.lock().unwrap()[n0..].iter().map(|x| x.listener.clone()).collect();
    let expects_prestream = matches!(&c.want, Want::OkAt(l) | Want::FailAfterContact(l) if l.starts_with("prestream"));
    let new: Vec<String> = if expects_prestream { all_new.clone() } else { all_new.iter().filter(|l| !l.starts_with("prestream")).cloned().collect() };
    let got = match r {
        Err(p) => {
            rep.violation(&format!("setup:panic:{}", want_kind(&c.want)), &format!("{:?}: connection setup panicked: {}", c, p), replay);
            return;
        }
        Ok(g) => g,
    };
    let bad = |why: String| {
        rep.violation(&format!("setup:{}", want_kind(&c.want)), &format!("{:?}: {} (got {:?} after {:.3}s, listeners contacted: {:?})", c, why, got, secs, new), replay.clone());
    };
    match &c.want {
        Want::ParseError => {
            if got != Err("UrlParsing") || !new.is_empty() {
                bad("expected a URL parse error and no connection".into());
            }
        }
        Want::UnknownScheme => {
            if got != Err("UnknownScheme") || !new.is_empty() {
                bad("expected UnknownScheme and no connection".into());
            }
        }
        Want::EmptyUnixPath => {
            if got != Err("EmptyUnixPath") || !new.is_empty() {
                bad("expected EmptyUnixPath and no connection".into());
            }
        }
        Want::PortInUnixPath => {
            if got != Err("PortInUnixPath") || !new.is_empty() {
                bad("expected PortInUnixPath and no connection".into());
            }
        }
        Want::Mismatched => {
            if got != Err("MismatchedStreamType") || !new.is_empty() {
                bad("expected MismatchedStreamType and no connection".into());
            }
        }
        Want::ConnectError => {
            if !matches!(got, Err("Io")) || !new.is_empty() {
                bad("expected an I/O error and no listener contacted".into());
            }
        }
        Want::OkAt(l) => {
            if got != Ok(true) || !new.iter().all(|x| x == l) || new.is_empty() {
                bad(format!("expected a working connection to {}", l));
            }
        }
        Want::FailAfterContact(l) => {
            if got.is_ok() || !new.iter().all(|x| x == l) || new.is_empty() {
                bad(format!("expected {} to be contacted and the establishment to fail", l));
            } else {
                // what the peer saw first: an ldaps URL means TLS from the first octet on, whatever
                // the StartTLS setting; ldap + StartTLS begins with the StartTLS request
                let t0 = Instant::now();
                let first: Vec<u8> = loop {
                    let b: Vec<u8> = env.contacts.lock().unwrap()[n0..].iter().filter(|x| x.listener == *l).flat_map(|x| x.bytes.clone()).collect();
                    if !b.is_empty() || t0.elapsed() > Duration::from_millis(1500) {
                        break b;
                    }
                    std::thread::sleep(Duration::from_millis(5));
                };
                let ldaps = c.url.to_ascii_lowercase().starts_with("ldaps:");
                if ldaps && first.first() != Some(&0x16) {
                    bad(format!("an ldaps URL must start with a TLS handshake record, the peer received {}", ber::hex(&first[..first.len().min(40)])));
                }
                if !ldaps && first.first() != Some(&0x30) {
                    bad(format!("ldap + StartTLS must start with the StartTLS request, the peer received {}", ber::hex(&first[..first.len().min(40)])));
                }
            }
        }
        Want::Timeout => {
            let t = c.timeout_ms.unwrap() as f64 / 1000.0;
            if got != Err("Timeout") || secs < t * 0.9 || secs > t + 1.5 {
                bad(format!("expected Timeout after about {:.1}s", t));
            }
        }
    }
}

fn want_kind(w: &Want) -> &'static str {
    match w {
        Want::ParseError => "parse-error",
        Want::UnknownScheme => "unknown-scheme",
        Want::EmptyUnixPath => "empty-unix-path",
        Want::PortInUnixPath => "port-in-unix-path",
        Want::Mismatched => "mismatched-stream",
        Want::OkAt(_) => "should-connect",
        Want::FailAfterContact(_) => "tls-against-cleartext",
        Want::ConnectError => "unreachable",
        Want::Timeout => "timeout",
    }
}

fn pct_path(p: &str, upper: bool) -> String {
    let mut s = String::new();
    for b in p.bytes() {
        if b.is_ascii_alphanumeric() || b == b'.' || b == b'-' || b == b'_' {
            s.push(b as char);
        } else if upper {
            s.push_str(&format!("%{:02X}", b));
        } else {
            s.push_str(&format!("%{:02x}", b));
        }
    }
    s
}

pub fn run(tier: Tier) -> i32 {
    let rep = Reporter::new("C18", tier);
    let _ports = super::lock_default_ports();
    let contacts: Contacts = Arc::new(Mutex::new(vec![]));
    // listeners
    let open_port = tcp_listener("127.0.0.1:0", "tcp:open", Mode::Responder, contacts.clone()).expect("ephemeral listener");
    let v6_open = tcp_listener(&format!("[::1]:{}", open_port), "tcp:open", Mode::Responder, contacts.clone()).is_some();
    let silent_port = tcp_listener("127.0.0.1:0", "tcp:silent", Mode::Silent, contacts.clone()).expect("silent listener");
    let closed_port = {
        let l = std::net::TcpListener::bind("127.0.0.1:0").unwrap();
        l.local_addr().unwrap().port()
    };
    let p389 = tcp_listener("127.0.0.1:389", "tcp:389", Mode::Responder, contacts.clone()).is_some();
    let p389v6 = tcp_listener("[::1]:389", "tcp:389", Mode::Responder, contacts.clone()).is_some();
    let p636 = tcp_listener("127.0.0.1:636", "tcp:636", Mode::Responder, contacts.clone()).is_some();
    let p636v6 = tcp_listener("[::1]:636", "tcp:636", Mode::Responder, contacts.clone()).is_some();
    let dir = scratch_dir();
    let sock_plain = format!("{}/ldapi.sock", dir);
    let sock_space = format!("{}/ld api.sock", dir);
    let sock_colon = format!("{}/slapd:389.sock", dir);
    let u1 = unix_listener(&sock_plain, "unix:plain", Mode::Responder, contacts.clone());
    let u2 = unix_listener(&sock_space, "unix:space", Mode::Responder, contacts.clone());
    let u3 = unix_listener(&sock_colon, "unix:colon", Mode::Responder, contacts.clone());
    assert!(u1 && u2 && u3, "verif-machinery: cannot bind Unix listeners under {}", dir);
    let env = Env { contacts: contacts.clone(), open_port, closed_port, silent_port };

    let mut cases: Vec<Case> = vec![];
    let pres = [Pre::None, Pre::Tcp, Pre::Unix, Pre::Invalid];
    // ---- TCP family
    for scheme in ["ldap", "ldaps", "LDAP", "LdapS"] {
        let tls_scheme = scheme.eq_ignore_ascii_case("ldaps");
        for host in ["", "localhost", "127.0.0.1", "[::1]", "name.invalid"] {
            for port in ["absent", "open", "closed"] {
                for starttls in [false, true] {
                    for pre in pres {
                        for timeout_ms in [None, Some(3000u64), Some(u64::MAX)] {
                            for sync_api in [false, true] {
                                if tier == Tier::Quick && timeout_ms.is_some() && (pre != Pre::None || sync_api) {
                                    continue;
                                }
                                if timeout_ms == Some(u64::MAX) && tier == Tier::Quick && (starttls || host == "name.invalid") {
                                    continue;
                                }
                                let portnum = match port {
                                    "open" => Some(open_port),
                                    "closed" => Some(closed_port),
                                    _ => None,
                                };
                                let url = format!("{}://{}{}/", scheme, host, portnum.map(|p| format!(":{}", p)).unwrap_or_default());
                                let url = if host.is_empty() && portnum.is_some() { format!("{}://:{}/", scheme, portnum.unwrap()) } else { url };
                                let tls = tls_scheme || starttls;
                                let eff_port = portnum.unwrap_or(if tls_scheme { 636 } else { 389 });
                                let v6 = host == "[::1]";
                                let listener: Option<String> = match port {
                                    "open" => {
                                        if v6 && !v6_open {
                                            None
                                        } else {
                                            Some("tcp:open".into())
                                        }
                                    }
                                    "closed" => None,
                                    _ => {
                                        let up = if eff_port == 389 { if v6 { p389v6 } else { p389 } } else if v6 { p636v6 } else { p636 };
                                        if up {
                                            Some(format!("tcp:{}", eff_port))
                                        } else {
                                            None
                                        }
                                    }
                                };
                                // url crate: "ldap://:389/" does not parse (empty host with a port)
                                let want = if host.is_empty() && portnum.is_some() {
                                    Want::ParseError
                                } else {
                                    match pre {
                                        Pre::Unix | Pre::Invalid => Want::Mismatched,
                                        Pre::TcpSilent => unreachable!(),
                                        Pre::Tcp => {
                                            if tls {
                                                Want::FailAfterContact("prestream-tcp".into())
                                            } else {
                                                Want::OkAt("prestream-tcp".into())
                                            }
                                        }
                                        Pre::None => {
                                            if host == "name.invalid" {
                                                Want::ConnectError
                                            } else {
                                                match listener {
                                                    None => {
                                                        // default port not bindable in this sandbox or v6 missing: skip
                                                        if port == "closed" || (v6 && port == "open") {
                                                            Want::ConnectError
                                                        } else {
                                                            continue;
                                                        }
                                                    }
                                                    Some(l) => {
                                                        if tls {
                                                            Want::FailAfterContact(l)
                                                        } else {
                                                            Want::OkAt(l)
                                                        }
                                                    }
                                                }
                                            }
                                        }
                                    }
                                };
                                cases.push(Case { url, starttls, pre, timeout_ms, sync_api, want });
                            }
                        }
                    }
                }
            }
        }
    }
    // ---- ldapi family
    let ldapi_paths: Vec<(String, Want)> = vec![
        (pct_path(&sock_plain, true), Want::OkAt("unix:plain".into())),
        (pct_path(&sock_plain, false), Want::OkAt("unix:plain".into())),
        (pct_path(&sock_space, true), Want::OkAt("unix:space".into())),
        (pct_path(&sock_colon, true), Want::OkAt("unix:colon".into())),
        (pct_path(&sock_colon, false), Want::OkAt("unix:colon".into())),
        (pct_path(&format!("{}/nonexistent.sock", dir), true), Want::ConnectError),
        // percent-escapes that do not decode to UTF-8: no such socket, never a panic
        (format!("{}%2Fsock%FF%FE", pct_path(&dir, true)), Want::ConnectError),
        (format!("{}%2f%c3%28", pct_path(&dir, false)), Want::ConnectError),
        ("%80".into(), Want::ConnectError),
        ("%2Ftmp%2F%E2%82".into(), Want::ConnectError),
        ("".into(), Want::EmptyUnixPath),
        (format!("{}:389", pct_path(&sock_plain, true)), Want::PortInUnixPath),
        (format!("{}:x", pct_path(&sock_plain, true)), Want::ParseError),
    ];
    for (p, w) in &ldapi_paths {
        for scheme in ["ldapi", "LDAPI"] {
            for pre in pres {
                for starttls in [false, true] {
                    for timeout_ms in [None, Some(300u64)] {
                        for sync_api in [false, true] {
                            let want = if *w == Want::ParseError {
                                Want::ParseError
                            } else {
                                match pre {
                                    Pre::None => w.clone(),
                                    Pre::Unix => Want::OkAt("prestream-unix".into()),
                                    Pre::Tcp | Pre::TcpSilent | Pre::Invalid => Want::Mismatched,
                                }
                            };
                            cases.push(Case { url: format!("{}://{}/", scheme, p), starttls, pre, timeout_ms, sync_api, want });
                        }
                    }
                }
            }
        }
    }
    // the documented short form for a pre-opened Unix stream
    for sync_api in [false, true] {
        cases.push(Case { url: "ldapi:///".into(), starttls: false, pre: Pre::Unix, timeout_ms: None, sync_api, want: Want::OkAt("prestream-unix".into()) });
        cases.push(Case { url: "ldapi:///".into(), starttls: false, pre: Pre::None, timeout_ms: None, sync_api, want: Want::EmptyUnixPath });
    }
    // ---- unknown schemes and unparsable strings
    for sync_api in [false, true] {
        for pre in pres {
            for (u, w) in [
                (format!("http://127.0.0.1:{}/", open_port), Want::UnknownScheme),
                (format!("ldapx://127.0.0.1:{}/", open_port), Want::UnknownScheme),
                (format!("localhost:{}", open_port), Want::UnknownScheme),
                ("".to_string(), Want::ParseError),
                ("://x".to_string(), Want::ParseError),
                ("ldap://[::1".to_string(), Want::ParseError),
                ("ldap://127.0.0.1:99999/".to_string(), Want::ParseError),
                ("127.0.0.1".to_string(), Want::ParseError),
                ("ldap//localhost".to_string(), Want::ParseError),
            ] {
                cases.push(Case { url: u, starttls: false, pre, timeout_ms: None, sync_api, want: w });
            }
        }
    }
    // ---- timeouts: a server that accepts and stays silent
    for sync_api in [false, true] {
        for (scheme, starttls) in [("ldap", true), ("ldaps", false), ("ldaps", true)] {
            for ms in [300u64, 700] {
                cases.push(Case { url: format!("{}://127.0.0.1:{}/", scheme, silent_port), starttls, pre: Pre::None, timeout_ms: Some(ms), sync_api, want: Want::Timeout });
            }
        }
    }
    // the same over a pre-opened TCP stream whose peer stays silent: the timeout bounds the
    // StartTLS exchange / TLS handshake there as well
    for sync_api in [false, true] {
        for (scheme, starttls) in [("ldap", true), ("ldaps", false), ("ldaps", true)] {
            for ms in [300u64, 700] {
                cases.push(Case { url: format!("{}://127.0.0.1:{}/", scheme, closed_port), starttls, pre: Pre::TcpSilent, timeout_ms: Some(ms), sync_api, want: Want::Timeout });
            }
        }
    }
    let total = cases.len();
    // run sequentially so that contacts can be attributed (timeout cases overlap nothing else)
    let mut per_kind: std::collections::BTreeMap<&'static str, u64> = Default::default();
    for c in &cases {
        *per_kind.entry(want_kind(&c.want)).or_insert(0) += 1;
        judge(&rep, c, &env);
    }
    let _ = std::fs::remove_dir_all(&dir);
    let c = cov(vec![
        ("evaluations", json!(total)),
        ("distinct_nontrivial", json!(total)),
        ("rule", json!("product of scheme {ldap, ldaps, LDAP, LdapS} x host {absent, localhost, 127.0.0.1, [::1], name.invalid} x port {absent, open, closed} x StartTLS x pre-opened stream {none, TCP, Unix, Invalid} x conn_timeout x {LdapConnAsync, LdapConn}; ldapi paths {live (upper/lower-case percent-encoding), with space, with an encoded colon, nonexistent, empty, with :389, with :x} x the same settings; unknown schemes and unparsable strings; silent-server timeout cases, also over a pre-opened TCP stream; for TLS-against-cleartext cases the first octets the peer received (TLS record for ldaps, StartTLS request for ldap+StartTLS). Each case is a distinct (URL, settings, API) triple; the reference function predicts which loopback listener is contacted and the error class")),
        ("cases_by_expected_outcome", json!(per_kind)),
        ("default_port_listeners", json!({"127.0.0.1:389": p389, "[::1]:389": p389v6, "127.0.0.1:636": p636, "[::1]:636": p636v6, "[::1]:open": v6_open})),
        ("samples", json!([format!("{:?}", cases[17]), format!("{:?}", cases[cases.len() - 1])])),
        ("exhaustive", json!(true)),
    ]);
    let _ = ber::hex(&[]);
    rep.finish("fault_enumeration", c, vec!["loopback listeners on 127.0.0.1/::1 (ports 389/636 when bindable, ephemeral otherwise) and Unix sockets record who was contacted; name.invalid does not resolve offline".into()])
}

pub fn replay(v: &serde_json::Value) -> i32 {
    println!("{}", serde_json::to_string_pretty(&v["replay"]).unwrap());
    println!("(re-run ./check C18 quick to reproduce; the case above gives URL and settings)");
    0
}
