//! C18 — connection setup honours the URL and fails cleanly on bad input.

use super::{scratch_dir, serve_stream, with_deadline, Contacts, Fence, Mode, Registrar};
use crate::common::{catch, cov, Reporter, Tier};
use crate::vcore::ber;
use ldap3::{LdapConn, LdapConnAsync, LdapConnSettings, LdapError, StdStream};
use serde_json::json;
use std::sync::{Arc, Mutex};
use std::time::{Duration, Instant};

#[derive(Clone, Debug, PartialEq, Eq)]
enum Want {
    ParseError,
    UnknownScheme,
    EmptyUnixPath,
    PortInUnixPath,
    Mismatched,
    /// establishment succeeds and a bind round-trips at this listener
    OkAt(String),
    /// the listener is contacted, then establishment fails (TLS against a cleartext server)
    FailAfterContact(String),
    /// nothing listens / the name does not resolve
    ConnectError,
    /// establishment must fail with Timeout within the bound
    Timeout,
    /// the listener is contacted and hangs up during TLS / StartTLS setup: an error, promptly
    PeerHangsUp(String),
    /// the peer answers StartTLS after 2.5 s and then stalls the handshake: with a connection
    /// timeout of 3 s establishment ends with Timeout at 3 s (the timeout bounds the whole, it does
    /// not start again for each step)
    TimeoutAcrossSteps,
}

#[derive(Clone, Copy, Debug, PartialEq, Eq)]
enum Pre {
    None,
    Tcp,
    /// a pre-opened TCP stream whose peer reads and never answers
    TcpSilent,
    Unix,
    Invalid,
}

#[derive(Clone, Debug)]
struct Case {
    url: String,
    starttls: bool,
    pre: Pre,
    timeout_ms: Option<u64>,
    sync_api: bool,
    want: Want,
    /// entry point: 0 with_settings(&str), 1 new(&str), 2 from_url_with_settings(&Url), 3 from_url(&Url)
    api: u8,
}

fn err_kind(e: &LdapError) -> &'static str {
    match e {
        LdapError::UrlParsing { .. } => "UrlParsing",
        LdapError::UnknownScheme(_) => "UnknownScheme",
        LdapError::EmptyUnixPath => "EmptyUnixPath",
        LdapError::PortInUnixPath => "PortInUnixPath",
        LdapError::MismatchedStreamType => "MismatchedStreamType",
        LdapError::Io { .. } => "Io",
        LdapError::Timeout { .. } => "Timeout",
        LdapError::NativeTLS { .. } => "NativeTLS",
        LdapError::ResultRecv { .. } => "ResultRecv",
        LdapError::OpSend { .. } => "OpSend",
        LdapError::LdapResult { .. } => "LdapResult",
        _ => "Other",
    }
}

struct Env {
    contacts: Contacts,
    open_port: u16,
    closed_port: u16,
    silent_port: u16,
    fence: Option<Fence>,
}

/// outcome of one establishment attempt: Ok(bind worked?) / Err(kind) / panic text
fn attempt(c: &Case, env: &Env) -> (Result<Result<bool, &'static str>, String>, f64) {
    let mut settings = LdapConnSettings::new().set_starttls(c.starttls);
    if let Some(ms) = c.timeout_ms {
        settings = settings.set_conn_timeout(if ms == u64::MAX { Duration::MAX } else { Duration::from_millis(ms) });
    }
    match c.pre {
        Pre::None => {}
        Pre::Invalid => settings = settings.set_std_stream(StdStream::Invalid),
        Pre::Tcp => {
            let l = std::net::TcpListener::bind("127.0.0.1:0").expect("bind");
            let addr = l.local_addr().unwrap();
            let client = std::net::TcpStream::connect(addr).expect("connect");
            let (srv, _) = l.accept().expect("accept");
            serve_stream(srv, "prestream-tcp", Mode::Responder, env.contacts.clone());
            settings = settings.set_std_stream(StdStream::Tcp(client));
        }
        Pre::TcpSilent => {
            let l = std::net::TcpListener::bind("127.0.0.1:0").expect("bind");
            let addr = l.local_addr().unwrap();
            let client = std::net::TcpStream::connect(addr).expect("connect");
            let (srv, _) = l.accept().expect("accept");
            serve_stream(srv, "prestream-tcp-silent", Mode::Silent, env.contacts.clone());
            settings = settings.set_std_stream(StdStream::Tcp(client));
        }
        Pre::Unix => {
            let (a, b) = std::os::unix::net::UnixStream::pair().expect("pair");
            serve_stream(b, "prestream-unix", Mode::Responder, env.contacts.clone());
            settings = settings.set_std_stream(StdStream::Unix(a));
        }
    }
    let url = c.url.clone();
    let sync_api = c.sync_api;
    let api = c.api;
    let t0 = Instant::now();
    let r = catch(move || {
        let parsed = if api >= 2 { Some(url::Url::parse(&url).expect("verif-machinery: api 2/3 cases have parsable URLs")) } else { None };
        if sync_api {
            let made = match api {
                0 => LdapConn::with_settings(settings, &url),
                1 => LdapConn::new(&url),
                2 => LdapConn::from_url_with_settings(settings, parsed.as_ref().unwrap()),
                _ => LdapConn::from_url(parsed.as_ref().unwrap()),
            };
            match made {
                Ok(mut conn) => {
                    let b = conn.with_timeout(Duration::from_secs(8)).simple_bind("cn=probe", "pw");
                    Ok(b.map(|r| r.rc == 0).unwrap_or(false))
                }
                Err(e) => Err(err_kind(&e)),
            }
        } else {
            let rt = tokio::runtime::Builder::new_current_thread().enable_all().build().unwrap();
            rt.block_on(async {
                let made = match api {
                    0 => LdapConnAsync::with_settings(settings, &url).await,
                    1 => LdapConnAsync::new(&url).await,
                    2 => LdapConnAsync::from_url_with_settings(settings, parsed.as_ref().unwrap()).await,
                    _ => LdapConnAsync::from_url(parsed.as_ref().unwrap()).await,
                };
                match made {
                    Ok((conn, mut ldap)) => {
                        tokio::spawn(async move {
                            let _ = conn.drive().await;
                        });
                        let b = ldap.with_timeout(Duration::from_secs(8)).simple_bind("cn=probe", "pw").await;
                        Ok(b.map(|r| r.rc == 0).unwrap_or(false))
                    }
                    Err(e) => Err(err_kind(&e)),
                }
            })
        }
    });
    (r, t0.elapsed().as_secs_f64())
}

fn judge(rep: &Reporter, c: &Case, env: &Env) {
    let n0 = env.contacts.lock().unwrap().len();
    let c2 = c.clone();
    let env2 = Env { contacts: env.contacts.clone(), open_port: env.open_port, closed_port: env.closed_port, silent_port: env.silent_port, fence: None };
    let replay = json!({"engine":"c18","case":format!("{:?}", c)});
    let out = with_deadline(Duration::from_secs(15), move || attempt(&c2, &env2));
    let (r, secs) = match out {
        Some(x) => x,
        None => {
            rep.violation(&format!("setup:hangs:{}", want_kind(&c.want)), &format!("{:?}: connection setup did not return within 15 s", c), replay);
            return;
        }
    };
    // every connection made so far is registered once the fence has passed
    env.fence.as_ref().expect("fence").wait();
    // the server end of a pre-opened stream registers itself when the case is set up; only
    // listeners the library connected to by itself count as "contacted" for the error cases
    let all_new: Vec<String> = env.contacts.lock().unwrap()[n0..].iter().map(|x| x.listener.clone()).collect();
    let expects_prestream = matches!(&c.want, Want::OkAt(l) | Want::FailAfterContact(l) if l.starts_with("prestream"));
    let new: Vec<String> = if expects_prestream { all_new.clone() } else { all_new.iter().filter(|l| !l.starts_with("prestream")).cloned().collect() };
    let got = match r {
        Err(p) => {
            rep.violation(&format!("setup:panic:{}", want_kind(&c.want)), &format!("{:?}: connection setup panicked: {}", c, p), replay);
            return;
        }
        Ok(g) => g,
    };
    let bad = |why: String| {
        rep.violation(&format!("setup:{}", want_kind(&c.want)), &format!("{:?}: {} (got {:?} after {:.3}s, listeners contacted: {:?})", c, why, got, secs, new), replay.clone());
    };
    match &c.want {
        Want::ParseError => {
            if got != Err("UrlParsing") || !new.is_empty() {
                bad("expected a URL parse error and no connection".into());
            }
        }
        Want::UnknownScheme => {
            if got != Err("UnknownScheme") || !new.is_empty() {
                bad("expected UnknownScheme and no connection".into());
            }
        }
        Want::EmptyUnixPath => {
            if got != Err("EmptyUnixPath") || !new.is_empty() {
                bad("expected EmptyUnixPath and no connection".into());
            }
        }
        Want::PortInUnixPath => {
            if got != Err("PortInUnixPath") || !new.is_empty() {
                bad("expected PortInUnixPath and no connection".into());
            }
        }
        Want::Mismatched => {
            if got != Err("MismatchedStreamType") || !new.is_empty() {
                bad("expected MismatchedStreamType and no connection".into());
            }
        }
        Want::ConnectError => {
            if !matches!(got, Err("Io")) || !new.is_empty() {
                bad("expected an I/O error and no listener contacted".into());
            }
        }
        Want::OkAt(l) => {
            if got != Ok(true) || !new.iter().all(|x| x == l) || new.is_empty() {
                bad(format!("expected a working connection to {}", l));
            }
        }
        Want::FailAfterContact(l) => {
            if got.is_ok() || !new.iter().all(|x| x == l) || new.is_empty() {
                bad(format!("expected {} to be contacted and the establishment to fail", l));
            } else {
                // what the peer saw first: an ldaps URL means TLS from the first octet on, whatever
                // the StartTLS setting; ldap + StartTLS begins with the StartTLS request
                let t0 = Instant::now();
                let first: Vec<u8> = loop {
                    let b: Vec<u8> = env.contacts.lock().unwrap()[n0..].iter().filter(|x| x.listener == *l).flat_map(|x| x.bytes.clone()).collect();
                    if !b.is_empty() || t0.elapsed() > Duration::from_millis(1500) {
                        break b;
                    }
                    std::thread::sleep(Duration::from_millis(5));
                };
                let ldaps = c.url.to_ascii_lowercase().starts_with("ldaps:");
                if ldaps && first.first() != Some(&0x16) {
                    bad(format!("an ldaps URL must start with a TLS handshake record, the peer received {}", ber::hex(&first[..first.len().min(40)])));
                }
                if !ldaps && first.first() != Some(&0x30) {
                    bad(format!("ldap + StartTLS must start with the StartTLS request, the peer received {}", ber::hex(&first[..first.len().min(40)])));
                }
            }
        }
        Want::PeerHangsUp(l) => {
            if got.is_ok() || got == Err("Timeout") || !new.iter().all(|x| x == l) || new.is_empty() || secs > 10.0 {
                bad(format!("expected {} to be contacted and the establishment to fail by itself (not by the timeout)", l));
            }
        }
        Want::TimeoutAcrossSteps => {
            if got != Err("Timeout") || secs < 2.7 || secs > 4.6 {
                bad("expected Timeout about 3 s after the start, although the StartTLS answer came at 2.5 s".to_string());
            }
        }
        Want::Timeout => {
            let t = c.timeout_ms.unwrap() as f64 / 1000.0;
            if got != Err("Timeout") || secs < t * 0.9 || secs > t + 8.0 {
                bad(format!("expected Timeout after about {:.1}s", t));
            }
        }
    }
}

fn want_kind(w: &Want) -> &'static str {
    match w {
        Want::ParseError => "parse-error",
        Want::UnknownScheme => "unknown-scheme",
        Want::EmptyUnixPath => "empty-unix-path",
        Want::PortInUnixPath => "port-in-unix-path",
        Want::Mismatched => "mismatched-stream",
        Want::OkAt(_) => "should-connect",
        Want::FailAfterContact(_) => "tls-against-cleartext",
        Want::ConnectError => "unreachable",
        Want::Timeout => "timeout",
        Want::PeerHangsUp(_) => "peer-hangs-up",
        Want::TimeoutAcrossSteps => "timeout-across-steps",
    }
}

fn pct_path(p: &str, upper: bool) -> String {
    let mut s = String::new();
    for b in p.bytes() {
        if b.is_ascii_alphanumeric() || b == b'.' || b == b'-' || b == b'_' {
            s.push(b as char);
        } else if upper {
            s.push_str(&format!("%{:02X}", b));
        } else {
            s.push_str(&format!("%{:02x}", b));
        }
    }
    s
}

struct ShardOut {
    run: usize,
    per_kind: std::collections::BTreeMap<&'static str, u64>,
    default_ports: serde_json::Value,
    samples: Vec<String>,
}

fn uses_default_port(c: &Case) -> bool {
    matches!(&c.want, Want::OkAt(l) | Want::FailAfterContact(l) if l == "tcp:389" || l == "tcp:636")
}

/// One environment (own listeners, sockets and contact log) runs its share of the cases one
/// after the other, so that every contact can be attributed; the environments run side by
/// side. The cases on the fixed default ports all belong to shard 0, which alone binds them.
fn run_shard(rep: &Reporter, tier: Tier, shard: usize, nshards: usize) -> ShardOut {
    let _ports = if shard == 0 { Some(super::lock_default_ports()) } else { None };
    let contacts: Contacts = Arc::new(Mutex::new(vec![]));
    let mut reg = Registrar::new(contacts.clone());
    // listeners
    let open_port = reg.tcp("127.0.0.1:0", "tcp:open", Mode::Responder).expect("ephemeral listener");
    let v6_open = reg.tcp(&format!("[::1]:{}", open_port), "tcp:open", Mode::Responder).is_some();
    let silent_port = reg.tcp("127.0.0.1:0", "tcp:silent", Mode::Silent).expect("silent listener");
    // a port nothing listens on: below the ephemeral range (which the environments running side
    // by side draw their listeners from), verified by a refused connection
    let closer_port = reg.tcp("127.0.0.1:0", "tcp:closer", Mode::CloseAtOnce).expect("closer listener");
    let rtc_port = reg.tcp("127.0.0.1:0", "tcp:read-then-close", Mode::ReadThenClose).expect("read-then-close listener");
    let slow_port = reg.tcp("127.0.0.1:0", "tcp:slow-then-silent", Mode::SlowAnswerThenSilent).expect("slow listener");
    let closed_port = (0..2000u16)
        .map(|k| 20011 + (shard as u16) * 2003 + k)
        .find(|p| {
            matches!(std::net::TcpStream::connect(("127.0.0.1", *p)), Err(e) if e.kind() == std::io::ErrorKind::ConnectionRefused)
                && !matches!(std::net::TcpStream::connect(("::1", *p)), Ok(_))
        })
        .expect("verif-machinery: no closed port found");
    let own = shard == 0;
    let p389 = own && reg.tcp("127.0.0.1:389", "tcp:389", Mode::Responder).is_some();
    let p389v6 = own && reg.tcp("[::1]:389", "tcp:389", Mode::Responder).is_some();
    let p636 = own && reg.tcp("127.0.0.1:636", "tcp:636", Mode::Responder).is_some();
    let p636v6 = own && reg.tcp("[::1]:636", "tcp:636", Mode::Responder).is_some();
    let dir = format!("{}-{}", scratch_dir(), shard);
    let _ = std::fs::create_dir_all(&dir);
    let sock_plain = format!("{}/ldapi.sock", dir);
    let sock_space = format!("{}/ld api.sock", dir);
    let sock_colon = format!("{}/slapd:389.sock", dir);
    // a socket deep down a directory tree: its percent-encoded path is longer than sun_path, the
    // decoded one is not; and a path of the maximum length
    let deep_dir = format!("{}/{}", dir, (0..22).map(|k| ((b'a' + k as u8) as char).to_string()).collect::<Vec<_>>().join("/"));
    let _ = std::fs::create_dir_all(&deep_dir);
    let sock_deep = format!("{}/s.sock", deep_dir);
    let sock_max = format!("{}/{}", dir, "m".repeat(107usize.saturating_sub(dir.len() + 1)));
    let u_deep = sock_deep.len() <= 107 && reg.unix(&sock_deep, "unix:deep", Mode::Responder);
    let u_max = sock_max.len() == 107 && reg.unix(&sock_max, "unix:max", Mode::Responder);
    let u1 = reg.unix(&sock_plain, "unix:plain", Mode::Responder);
    let u2 = reg.unix(&sock_space, "unix:space", Mode::Responder);
    let u3 = reg.unix(&sock_colon, "unix:colon", Mode::Responder);
    assert!(u1 && u2 && u3, "verif-machinery: cannot bind Unix listeners under {}", dir);
    let env = Env { contacts: contacts.clone(), open_port, closed_port, silent_port, fence: Some(reg.start()) };

    let mut cases: Vec<Case> = vec![];
    let pres = [Pre::None, Pre::Tcp, Pre::Unix, Pre::Invalid];
    // ---- TCP family
    for scheme in ["ldap", "ldaps", "LDAP", "LdapS"] {
        let tls_scheme = scheme.eq_ignore_ascii_case("ldaps");
        for host in ["", "localhost", "127.0.0.1", "[::1]", "name.invalid"] {
            for port in ["absent", "open", "closed"] {
                for starttls in [false, true] {
                    for pre in pres {
                        for timeout_ms in [None, Some(3000u64), Some(u64::MAX)] {
                            for sync_api in [false, true] {
                                let portnum = match port {
                                    "open" => Some(open_port),
                                    "closed" => Some(closed_port),
                                    _ => None,
                                };
                                let url = format!("{}://{}{}/", scheme, host, portnum.map(|p| format!(":{}", p)).unwrap_or_default());
                                let url = if host.is_empty() && portnum.is_some() { format!("{}://:{}/", scheme, portnum.unwrap()) } else { url };
                                let tls = tls_scheme || starttls;
                                let eff_port = portnum.unwrap_or(if tls_scheme { 636 } else { 389 });
                                let v6 = host == "[::1]";
                                let listener: Option<String> = match port {
                                    "open" => {
                                        if v6 && !v6_open {
                                            None
                                        } else {
                                            Some("tcp:open".into())
                                        }
                                    }
                                    "closed" => None,
                                    _ => {
                                        let up = if eff_port == 389 { if v6 { p389v6 } else { p389 } } else if v6 { p636v6 } else { p636 };
                                        if up {
                                            Some(format!("tcp:{}", eff_port))
                                        } else {
                                            None
                                        }
                                    }
                                };
                                // url crate: "ldap://:389/" does not parse (empty host with a port)
                                let want = if host.is_empty() && portnum.is_some() {
                                    Want::ParseError
                                } else {
                                    match pre {
                                        Pre::Unix | Pre::Invalid => Want::Mismatched,
                                        Pre::TcpSilent => unreachable!(),
                                        Pre::Tcp => {
                                            if tls {
                                                Want::FailAfterContact("prestream-tcp".into())
                                            } else {
                                                Want::OkAt("prestream-tcp".into())
                                            }
                                        }
                                        Pre::None => {
                                            if host == "name.invalid" {
                                                Want::ConnectError
                                            } else {
                                                match listener {
                                                    None => {
                                                        // default port not bindable in this sandbox or v6 missing: skip
                                                        if port == "closed" || (v6 && port == "open") {
                                                            Want::ConnectError
                                                        } else {
                                                            continue;
                                                        }
                                                    }
                                                    Some(l) => {
                                                        if tls {
                                                            Want::FailAfterContact(l)
                                                        } else {
                                                            Want::OkAt(l)
                                                        }
                                                    }
                                                }
                                            }
                                        }
                                    }
                                };
                                cases.push(Case { url, starttls, pre, timeout_ms, sync_api, want, api: 0 });
                            }
                        }
                    }
                }
            }
        }
    }
    // ---- what follows the authority (path, query) and a userinfo part do not matter for setup
    {
        let decors: Vec<(&str, &str)> = if tier == Tier::Thorough {
            vec![("", ""), ("", "/dc=example,dc=com"), ("", "/dc=example,dc=com?cn,sn?sub?(cn=*)"), ("", "/??base"), ("user@", "/"), ("cn=admin:secret@", "/"), ("", "/%2F"), ("", "/?x#frag")]
        } else {
            vec![("", ""), ("", "/dc=example,dc=com?cn?sub?(cn=*)"), ("user:pw@", "/")]
        };
        for (ui, tail) in decors {
            for scheme in ["ldap", "ldaps"] {
                for (host, lname) in [("127.0.0.1", "tcp:open"), ("localhost", "tcp:open")] {
                    for starttls in [false, true] {
                        for sync_api in [false, true] {
                            let tls = scheme == "ldaps" || starttls;
                            let want = if tls { Want::FailAfterContact(lname.into()) } else { Want::OkAt(lname.into()) };
                            cases.push(Case { url: format!("{}://{}{}:{}{}", scheme, ui, host, open_port, tail), starttls, pre: Pre::None, timeout_ms: None, sync_api, want, api: 0 });
                            cases.push(Case { url: format!("{}://{}{}:{}{}", scheme, ui, host, closed_port, tail), starttls, pre: Pre::None, timeout_ms: None, sync_api, want: Want::ConnectError, api: 0 });
                        }
                    }
                }
            }
        }
    }
    // ---- ldapi family
    let ldapi_paths: Vec<(String, Want)> = vec![
        (pct_path(&sock_plain, true), Want::OkAt("unix:plain".into())),
        (pct_path(&sock_plain, false), Want::OkAt("unix:plain".into())),
        (pct_path(&sock_space, true), Want::OkAt("unix:space".into())),
        (pct_path(&sock_colon, true), Want::OkAt("unix:colon".into())),
        (pct_path(&sock_colon, false), Want::OkAt("unix:colon".into())),
        (pct_path(&format!("{}/nonexistent.sock", dir), true), Want::ConnectError),
        (pct_path(&sock_deep, true), if u_deep { Want::OkAt("unix:deep".into()) } else { Want::ConnectError }),
        (pct_path(&sock_deep, false), if u_deep { Want::OkAt("unix:deep".into()) } else { Want::ConnectError }),
        (pct_path(&sock_max, true), if u_max { Want::OkAt("unix:max".into()) } else { Want::ConnectError }),
        // percent-escapes that do not decode to UTF-8: no such socket, never a panic
        (format!("{}%2Fsock%FF%FE", pct_path(&dir, true)), Want::ConnectError),
        (format!("{}%2f%c3%28", pct_path(&dir, false)), Want::ConnectError),
        ("%80".into(), Want::ConnectError),
        ("%2Ftmp%2F%E2%82".into(), Want::ConnectError),
        ("".into(), Want::EmptyUnixPath),
        (format!("{}:389", pct_path(&sock_plain, true)), Want::PortInUnixPath),
        (format!("{}:x", pct_path(&sock_plain, true)), Want::ParseError),
    ];
    for (p, w) in &ldapi_paths {
        for scheme in ["ldapi", "LDAPI"] {
            for pre in pres {
                for starttls in [false, true] {
                    for timeout_ms in [None, Some(300u64)] {
                        for sync_api in [false, true] {
                            let want = if *w == Want::ParseError {
                                Want::ParseError
                            } else {
                                match pre {
                                    Pre::None => w.clone(),
                                    Pre::Unix => Want::OkAt("prestream-unix".into()),
                                    Pre::Tcp | Pre::TcpSilent | Pre::Invalid => Want::Mismatched,
                                }
                            };
                            cases.push(Case { url: format!("{}://{}/", scheme, p), starttls, pre, timeout_ms, sync_api, want, api: 0 });
                        }
                    }
                }
            }
        }
    }
    // the documented short form for a pre-opened Unix stream
    for sync_api in [false, true] {
        cases.push(Case { url: "ldapi:///".into(), starttls: false, pre: Pre::Unix, timeout_ms: None, sync_api, want: Want::OkAt("prestream-unix".into()), api: 0 });
        cases.push(Case { url: "ldapi:///".into(), starttls: false, pre: Pre::None, timeout_ms: None, sync_api, want: Want::EmptyUnixPath, api: 0 });
    }
    // ---- unknown schemes and unparsable strings
    for sync_api in [false, true] {
        for pre in pres {
            for (u, w) in [
                (format!("http://127.0.0.1:{}/", open_port), Want::UnknownScheme),
                (format!("ldapx://127.0.0.1:{}/", open_port), Want::UnknownScheme),
                (format!("localhost:{}", open_port), Want::UnknownScheme),
                ("".to_string(), Want::ParseError),
                ("://x".to_string(), Want::ParseError),
                ("ldap://[::1".to_string(), Want::ParseError),
                ("ldap://127.0.0.1:99999/".to_string(), Want::ParseError),
                ("127.0.0.1".to_string(), Want::ParseError),
                ("ldap//localhost".to_string(), Want::ParseError),
            ] {
                cases.push(Case { url: u, starttls: false, pre, timeout_ms: None, sync_api, want: w, api: 0 });
            }
        }
    }
    // ---- timeouts: a server that accepts and stays silent
    for sync_api in [false, true] {
        for (scheme, starttls) in [("ldap", true), ("ldaps", false), ("ldaps", true)] {
            for ms in [0u64, 300, 700] {
                cases.push(Case { url: format!("{}://127.0.0.1:{}/", scheme, silent_port), starttls, pre: Pre::None, timeout_ms: Some(ms), sync_api, want: Want::Timeout, api: 0 });
            }
        }
    }
    // peers that hang up - at once, or after reading the first bytes - while TLS or StartTLS is
    // being set up: establishment fails by itself, with and without a connection timeout
    for sync_api in [false, true] {
        for (scheme, starttls) in [("ldap", true), ("ldaps", false), ("ldaps", true)] {
            for (port, l) in [(closer_port, "tcp:closer"), (rtc_port, "tcp:read-then-close")] {
                for timeout_ms in [None, Some(3000u64)] {
                    cases.push(Case { url: format!("{}://127.0.0.1:{}/", scheme, port), starttls, pre: Pre::None, timeout_ms, sync_api, want: Want::PeerHangsUp(l.into()), api: 0 });
                }
            }
        }
    }
    // a peer that is slow in one step and stalls in the next
    for sync_api in [false, true] {
        cases.push(Case { url: format!("ldap://127.0.0.1:{}/", slow_port), starttls: true, pre: Pre::None, timeout_ms: Some(3000), sync_api, want: Want::TimeoutAcrossSteps, api: 0 });
    }
    // the same over a pre-opened TCP stream whose peer stays silent: the timeout bounds the
    // StartTLS exchange / TLS handshake there as well
    for sync_api in [false, true] {
        for (scheme, starttls) in [("ldap", true), ("ldaps", false), ("ldaps", true)] {
            for ms in [0u64, 300, 700] {
                cases.push(Case { url: format!("{}://127.0.0.1:{}/", scheme, closed_port), starttls, pre: Pre::TcpSilent, timeout_ms: Some(ms), sync_api, want: Want::Timeout, api: 0 });
            }
        }
    }
    // the other entry points: new(&str) / from_url(&Url) (default settings only) and
    // from_url_with_settings(&Url) take the same decisions
    let mut more = vec![];
    let (mut kd, mut kn) = (0usize, 0usize);
    for c in cases.iter() {
        // (counted separately so that every environment derives the same variants)
        let k = if uses_default_port(c) {
            kd += 1;
            kd - 1
        } else {
            kn += 1;
            kn - 1
        };
        let parsable = url::Url::parse(&c.url).is_ok();
        let defaults = !c.starttls && c.pre == Pre::None && c.timeout_ms.is_none();
        if defaults {
            more.push(Case { api: 1, ..c.clone() });
            if parsable {
                more.push(Case { api: 3, ..c.clone() });
            }
        }
        let _ = k;
        if parsable && c.want != Want::Timeout {
            more.push(Case { api: 2, ..c.clone() });
        }
    }
    cases.extend(more);
    // this environment's share
    let mut j = 0usize;
    let mine: Vec<Case> = cases
        .into_iter()
        .filter(|c| {
            if uses_default_port(c) {
                shard == 0
            } else {
                j += 1;
                (j - 1) % nshards == shard
            }
        })
        .collect();
    let mut per_kind: std::collections::BTreeMap<&'static str, u64> = Default::default();
    let t_sh = Instant::now();
    for c in &mine {
        *per_kind.entry(want_kind(&c.want)).or_insert(0) += 1;
        let t1 = Instant::now();
        judge(rep, c, &env);
        if std::env::var("VERIF_C18_TIMES").is_ok() && t1.elapsed().as_millis() > 300 {
            eprintln!("slow case ({} ms, shard {}): {:?}", t1.elapsed().as_millis(), shard, c);
        }
    }
    if std::env::var("VERIF_C18_TIMES").is_ok() {
        eprintln!("shard {}: {} cases in {:.1}s", shard, mine.len(), t_sh.elapsed().as_secs_f64());
    }
    let _ = std::fs::remove_dir_all(&dir);
    ShardOut {
        run: mine.len(),
        per_kind,
        default_ports: json!({"127.0.0.1:389": p389, "[::1]:389": p389v6, "127.0.0.1:636": p636, "[::1]:636": p636v6, "[::1]:open": v6_open}),
        samples: vec![format!("{:?}", mine[mine.len() / 3]), format!("{:?}", mine[mine.len() - 1])],
    }
}

pub fn run(tier: Tier) -> i32 {
    // (a one-certificate trust store: building a TLS connector against the system store takes
    // about 0.4 s per attempt; no case here completes a handshake)
    std::env::set_var("SSL_CERT_FILE", "/verif/build/pki/ca.pem");
    std::env::set_var("SSL_CERT_DIR", "/verif/build/pki/empty");
    let rep = Reporter::new("C18", tier);
    let nshards = 6usize;
    let outs: Vec<ShardOut> = std::thread::scope(|sc| {
        let hs: Vec<_> = (0..nshards).map(|k| { let rep = &rep; sc.spawn(move || run_shard(rep, tier, k, nshards)) }).collect();
        hs.into_iter().map(|h| h.join().expect("shard")).collect()
    });
    let _ = std::fs::remove_dir(scratch_dir());
    let total: usize = outs.iter().map(|o| o.run).sum();
    let mut per_kind: std::collections::BTreeMap<&'static str, u64> = Default::default();
    for o in &outs {
        for (k, v) in &o.per_kind {
            *per_kind.entry(k).or_insert(0) += v;
        }
    }
    let c = cov(vec![
        ("evaluations", json!(total)),
        ("distinct_nontrivial", json!(total)),
        ("rule", json!("product of scheme {ldap, ldaps, LDAP, LdapS} x host {absent, localhost, 127.0.0.1, [::1], name.invalid} x port {absent, open, closed} x StartTLS x pre-opened stream {none, TCP, Unix, Invalid} x conn_timeout x {LdapConnAsync, LdapConn} x entry point {with_settings, new, from_url, from_url_with_settings}; ldapi paths {live (upper/lower-case percent-encoding), with space, with an encoded colon, nonexistent, empty, with :389, with :x} x the same settings; unknown schemes and unparsable strings; URLs with userinfo, path and query parts; silent-server timeout cases, also over a pre-opened TCP stream; for TLS-against-cleartext cases the first octets the peer received (TLS record for ldaps, StartTLS request for ldap+StartTLS). Each case is a distinct (URL, settings, API) triple; the reference function predicts which loopback listener is contacted and the error class")),
        ("cases_by_expected_outcome", json!(per_kind)),
        ("default_port_listeners", outs[0].default_ports.clone()),
        ("environments_run_side_by_side", json!(nshards)),
        ("samples", json!(outs.iter().flat_map(|o| o.samples.clone()).take(4).collect::<Vec<_>>())),
        ("exhaustive", json!(true)),
    ]);
    let _ = ber::hex(&[]);
    rep.finish("fault_enumeration", c, vec!["loopback listeners on 127.0.0.1/::1 (ports 389/636 when bindable, ephemeral otherwise) and Unix sockets record who was contacted; name.invalid does not resolve offline".into()])
}

pub fn replay(v: &serde_json::Value) -> i32 {
    println!("{}", serde_json::to_string_pretty(&v["replay"]).unwrap());
    println!("(re-run ./check C18 quick to reproduce; the case above gives URL and settings)");
    0
}
