//! C17 — requested TLS is never silently downgraded.

use super::with_deadline;
use crate::common::{catch, cov, Reporter, Tier};
use crate::vcore::ber;
use crate::vcore::msg::{self, Msg, Op, Res};
use ldap3::{LdapConnAsync, LdapConnSettings, LdapError};
use serde_json::json;
use std::io::{Read, Write};
use std::sync::{Arc, Mutex};
use std::time::Duration;

const STARTTLS_OID: &[u8] = b"1.3.6.1.4.1.1466.20037";

#[derive(Clone, Copy, Debug, PartialEq, Eq)]
enum Answer {
    Rc(u32),
    Garbage,
    Close,
    /// success, and in the same segment a complete forged cleartext BindResponse for ID 2
    Rc0PlusForgedFrame,
    /// success, and in the same segment the head of a forged BindResponse that the genuine
    /// in-TLS answer would complete if the cleartext read buffer survived the handshake
    Rc0PlusForgedPrefix,
    /// success under the wrong message ID
    WrongId,
    /// success under the wrong message ID, then the server hangs up
    WrongIdThenClose,
    /// an unsolicited notification (message ID 0) first, then the genuine success
    NoticeThenRc0,
    /// a response whose resultCode ENUMERATED has no content octets (malformed; a lenient
    /// reader would take it for 0)
    EmptyRc,
    /// resultCode 2^32 (five content octets; truncated to 32 bits it would read 0)
    Rc2Pow32,
    /// the given result code without the optional responseName
    RcNoName(u32),
    /// the given result code written with eight leading zero octets (nine content octets)
    PaddedRc(u32),
}

#[derive(Clone, Copy, Debug, PartialEq, Eq)]
enum Handshake {
    Normal,
    Close,
    Garbage,
}

#[derive(Clone, Debug)]
struct Case {
    ldaps: bool,
    host: &'static str,
    no_verify: bool,
    cert: &'static str,
    answer: Answer,
    hs: Handshake,
    /// connect with a clone of the settings (as a pool or reconnect loop would)
    cloned: bool,
    /// an ldaps URL and set_starttls(true) at once: still TLS from the first octet on
    both: bool,
    /// a custom TLS connector: "last" = set_connector() called after the other settings,
    /// "first" = before them, "noverify-last" = a connector that accepts any certificate
    connector: Option<&'static str>,
    /// no connection timeout in the settings: failures must be noticed by themselves
    no_timeout: bool,
    /// set_no_tls_verify() is called twice, first with the opposite value
    toggled: bool,
    /// the TCP connection is opened by the caller and handed over with set_std_stream()
    pre: bool,
}

#[derive(Default, Debug, Clone)]
struct Seen {
    /// bytes read before the TLS handshake
    cleartext: Vec<u8>,
    handshake_ok: bool,
    /// requests read inside TLS
    in_tls: Vec<String>,
}

fn trusted_for(cert: &str, host: &str) -> bool {
    match cert {
        "good" => host != "other.invalid",
        // (only reachable over a connection the caller opened: the name does not resolve)
        "wrongname" => host == "other.invalid",
        // a URL without a host means localhost
        "dnsonly" => host == "localhost" || host.is_empty(),
        _ => false,
    }
}

/// the genuine in-TLS answer to the bind (exactly 14 bytes): BindResponse id 2, rc 49
fn genuine_answer() -> Vec<u8> {
    Msg { id: 2, op: Op::BindResp(Res::new(49, "", ""), None), controls: None }.encode()
}

fn serve(mut tcp: std::net::TcpStream, c: Case, seen: Arc<Mutex<Seen>>) {
    let _ = tcp.set_read_timeout(Some(Duration::from_secs(12)));
    if !c.ldaps {
        // read exactly one LDAP request in cleartext
        let mut all = vec![];
        let mut buf = [0u8; 2048];
        loop {
            match tcp.read(&mut buf) {
                Ok(0) | Err(_) => {
                    seen.lock().unwrap().cleartext = all;
                    return;
                }
                Ok(n) => all.extend_from_slice(&buf[..n]),
            }
            seen.lock().unwrap().cleartext = all.clone();
            if let Ok((frames, _)) = msg::split_frames(&all) {
                if !frames.is_empty() {
                    break;
                }
            }
        }
        let ok = |id: i64, rc: i64| Msg { id, op: Op::ExtResp(Res::new(rc, "", ""), Some(STARTTLS_OID.to_vec()), None), controls: None }.encode();
        let reply: Vec<u8> = match c.answer {
            Answer::Rc(rc) => ok(1, rc as i64),
            Answer::RcNoName(rc) => Msg { id: 1, op: Op::ExtResp(Res::new(rc as i64, "", "no name"), None, None), controls: None }.encode(),
            Answer::Garbage => vec![0x30, 0x03, 0xff, 0xff, 0xff, 0x99],
            Answer::Close => {
                return;
            }
            Answer::WrongId | Answer::WrongIdThenClose => ok(99, 0),
            Answer::PaddedRc(rc) => {
                let m = Msg { id: 1, op: Op::ExtResp(Res::new(0, "", ""), Some(STARTTLS_OID.to_vec()), None), controls: None };
                let mut t = m.to_tlv();
                if let ber::Body::Cons(top) = &mut t.body {
                    if let ber::Body::Cons(op) = &mut top[1].body {
                        let mut v = vec![0u8; 8];
                        v.push(rc as u8);
                        op[0].body = ber::Body::Prim(v);
                    }
                }
                ber::encode(&t)
            }
            Answer::EmptyRc | Answer::Rc2Pow32 => {
                let m = Msg { id: 1, op: Op::ExtResp(Res::new(0, "", ""), Some(STARTTLS_OID.to_vec()), None), controls: None };
                let mut t = m.to_tlv();
                if let ber::Body::Cons(top) = &mut t.body {
                    if let ber::Body::Cons(op) = &mut top[1].body {
                        op[0].body = ber::Body::Prim(if c.answer == Answer::EmptyRc { vec![] } else { vec![1, 0, 0, 0, 0] });
                    }
                }
                ber::encode(&t)
            }
            Answer::NoticeThenRc0 => {
                let mut v = Msg { id: 0, op: Op::ExtResp(Res::new(0, "", "for your information"), Some(b"1.3.6.1.4.1.99999.1".to_vec()), None), controls: None }.encode();
                v.extend(ok(1, 0));
                v
            }
            Answer::Rc0PlusForgedFrame => {
                let mut v = ok(1, 0);
                v.extend(Msg { id: 2, op: Op::BindResp(Res::new(0, "", "INJECTED"), None), controls: None }.encode());
                v
            }
            Answer::Rc0PlusForgedPrefix => {
                let mut v = ok(1, 0);
                // a BindResponse for ID 2, rc 0, whose diagnostic text announces 14 more bytes
                let forged = Msg { id: 2, op: Op::BindResp(Res::new(0, "", &"X".repeat(14)), None), controls: None }.encode();
                v.extend_from_slice(&forged[..forged.len() - 14]);
                v
            }
        };
        if tcp.write_all(&reply).is_err() {
            return;
        }
        if c.answer == Answer::WrongIdThenClose {
            return;
        }
        // (after the two malformed / out-of-range result codes the server goes on to the handshake
        // as well: a client that took them for success would end up with a working handle)
        let proceeds = matches!(c.answer, Answer::Rc(0) | Answer::RcNoName(0) | Answer::PaddedRc(0) | Answer::Rc0PlusForgedFrame | Answer::Rc0PlusForgedPrefix | Answer::NoticeThenRc0 | Answer::EmptyRc | Answer::Rc2Pow32);
        if !proceeds {
            // keep reading: anything the client still sends in cleartext is recorded. Should the
            // client start a TLS handshake all the same, the server plays along (a client that
            // took the refusal for success ends up with a working handle, which is then judged)
            let mut more = [0u8; 2048];
            loop {
                match tcp.peek(&mut more[..1]) {
                    Ok(1) if more[0] == 0x16 => break,
                    Ok(0) | Err(_) => return,
                    Ok(_) => {}
                }
                match tcp.read(&mut more) {
                    Ok(0) | Err(_) => return,
                    Ok(n) => seen.lock().unwrap().cleartext.extend_from_slice(&more[..n]),
                }
            }
        }
    }
    match c.hs {
        Handshake::Close => return,
        Handshake::Garbage => {
            let _ = tcp.write_all(b"\x15\x03\x01\x00\x02\x02\x28 this is not TLS");
            let mut more = [0u8; 2048];
            let _ = tcp.read(&mut more);
            return;
        }
        Handshake::Normal => {}
    }
    let p12 = std::fs::read(format!("/verif/build/pki/{}.p12", c.cert)).expect("pkcs12");
    let id = native_tls::Identity::from_pkcs12(&p12, "verif").expect("identity");
    let acceptor = native_tls::TlsAcceptor::new(id).expect("acceptor");
    // record what precedes the handshake on the wire (the ClientHello itself is consumed by accept)
    let mut peek = [0u8; 3];
    if let Ok(n) = tcp.peek(&mut peek) {
        if c.ldaps {
            seen.lock().unwrap().cleartext = peek[..n].to_vec();
        } else {
            seen.lock().unwrap().cleartext.extend_from_slice(&peek[..n]);
        }
    }
    let mut tls = match acceptor.accept(tcp) {
        Ok(t) => t,
        Err(_) => return,
    };
    seen.lock().unwrap().handshake_ok = true;
    let mut all = vec![];
    let mut parsed = 0;
    let mut buf = [0u8; 2048];
    loop {
        let n = match tls.read(&mut buf) {
            Ok(0) | Err(_) => return,
            Ok(n) => n,
        };
        all.extend_from_slice(&buf[..n]);
        let (frames, used) = match msg::split_frames(&all[parsed..]) {
            Ok(x) => x,
            Err(_) => return,
        };
        parsed += used;
        for f in frames {
            let m = Msg::from_tlv(&f, &mut vec![]);
            seen.lock().unwrap().in_tls.push(format!("{:?}", m.as_ref().map(|m| &m.op)));
            if let Ok(m) = m {
                if let Op::BindReq { .. } = m.op {
                    let mut g = genuine_answer();
                    // message ID of the request (2 in every scenario here)
                    if m.id != 2 {
                        g = Msg { id: m.id, op: Op::BindResp(Res::new(49, "", ""), None), controls: None }.encode();
                    }
                    let _ = tls.write_all(&g);
                }
            }
        }
    }
}

fn err_kind(e: &LdapError) -> String {
    match e {
        LdapError::NativeTLS { .. } => "NativeTLS".into(),
        LdapError::Io { .. } => "Io".into(),
        LdapError::Timeout { .. } => "Timeout".into(),
        LdapError::LdapResult { result } => format!("LdapResult({})", result.rc),
        LdapError::ResultRecv { .. } => "ResultRecv".into(),
        LdapError::OpSend { .. } => "OpSend".into(),
        _ => "Other".into(),
    }
}

/// Ok(Some(rc of the bind after establishment)) / Ok(None) bind failed / Err(kind)
fn attempt(c: &Case, port: u16) -> Result<Result<Option<u32>, String>, String> {
    let scheme = if c.ldaps { "ldaps" } else { "ldap" };
    let url = if c.host.is_empty() { format!("{}:///", scheme) } else { format!("{}://{}:{}", scheme, c.host, port) };
    let (starttls, no_verify, cloned, connector) = (!c.ldaps || c.both, c.no_verify, c.cloned, c.connector);
    let ct = if c.no_timeout { None } else { Some(Duration::from_millis(6000)) };
    let toggled = c.toggled;
    let pre = if c.pre { Some(std::net::TcpStream::connect(("127.0.0.1", port)).map_err(|e| format!("pre-connect: {}", e))) } else { None };
    catch(move || {
        let rt = tokio::runtime::Builder::new_current_thread().enable_all().build().unwrap();
        rt.block_on(async {
            let custom = || {
                let mut b = native_tls::TlsConnector::builder();
                if connector == Some("noverify-last") {
                    b.danger_accept_invalid_certs(true);
                }
                b.build().expect("connector")
            };
            let settings = match connector {
                Some("first") => LdapConnSettings::new().set_connector(custom()).set_starttls(starttls).set_no_tls_verify(no_verify).verif_opt_timeout(ct),
                Some(_) => LdapConnSettings::new().set_starttls(starttls).set_no_tls_verify(no_verify).verif_opt_timeout(ct).set_connector(custom()),
                None if toggled => LdapConnSettings::new().set_no_tls_verify(!no_verify).set_starttls(starttls).set_no_tls_verify(no_verify).verif_opt_timeout(ct),
                None => LdapConnSettings::new().set_starttls(starttls).set_no_tls_verify(no_verify).verif_opt_timeout(ct),
            };
            let settings = if cloned { settings.clone() } else { settings };
            let settings = match pre {
                Some(Ok(s)) => settings.set_std_stream(ldap3::StdStream::Tcp(s)),
                Some(Err(e)) => panic!("verif-machinery: {}", e),
                None => settings,
            };
            match LdapConnAsync::with_settings(settings, &url).await {
                Err(e) => Err(err_kind(&e)),
                Ok((conn, mut ldap)) => {
                    tokio::spawn(async move {
                        let _ = conn.drive().await;
                    });
                    match ldap.with_timeout(Duration::from_millis(6000)).simple_bind("cn=after", "secret").await {
                        Ok(r) => Ok(Some(r.rc)),
                        Err(_) => Ok(None),
                    }
                }
            }
        })
    })
}

trait OptTimeout {
    fn verif_opt_timeout(self, t: Option<Duration>) -> Self;
}
impl OptTimeout for LdapConnSettings {
    fn verif_opt_timeout(self, t: Option<Duration>) -> Self {
        match t {
            Some(t) => self.set_conn_timeout(t),
            None => self,
        }
    }
}

fn judge(rep: &Reporter, c: &Case) -> bool {
    // a URL without a host goes to localhost at the scheme's default port
    let addr = if c.host.is_empty() { format!("127.0.0.1:{}", if c.ldaps { 636 } else { 389 }) } else { "127.0.0.1:0".to_string() };
    let listener = match std::net::TcpListener::bind(&addr) {
        Ok(l) => l,
        Err(_) if c.host.is_empty() => return false, // default port not bindable here: case skipped
        Err(e) => panic!("verif-machinery: cannot bind {}: {}", addr, e),
    };
    let port = listener.local_addr().unwrap().port();
    let seen = Arc::new(Mutex::new(Seen::default()));
    let (c2, s2) = (c.clone(), seen.clone());
    let srv = std::thread::spawn(move || {
        if let Ok((tcp, _)) = listener.accept() {
            serve(tcp, c2, s2);
        }
    });
    let c3 = c.clone();
    let replay = json!({"engine":"c17","case":format!("{:?}", c)});
    let out = with_deadline(Duration::from_secs(30), move || attempt(&c3, port));
    let _ = with_deadline(Duration::from_secs(8), move || {
        let _ = srv.join();
    });
    let seen = seen.lock().unwrap().clone();
    let out = match out {
        Some(o) => o,
        None => {
            rep.violation("tls:setup-hangs", &format!("{:?}: establishment did not return within 30 s", c), replay);
            return true;
        }
    };
    let got = match out {
        Err(p) => {
            rep.violation("tls:panic", &format!("{:?}: panicked: {}", c, p), replay);
            return true;
        }
        Ok(g) => g,
    };
    let answer_ok = c.ldaps || matches!(c.answer, Answer::Rc(0) | Answer::RcNoName(0) | Answer::PaddedRc(0) | Answer::Rc0PlusForgedFrame | Answer::Rc0PlusForgedPrefix | Answer::NoticeThenRc0);
    let should_succeed = answer_ok && c.hs == Handshake::Normal && (verification_off(c) || trusted_for(c.cert, c.host));
    let bad = |key: &str, why: String| {
        rep.violation(&format!("tls:{}", key), &format!("{:?}: {} (outcome {:?}, server saw {:?})", c, why, got, seen), replay.clone());
    };
    // 1. cleartext discipline: exactly one StartTLS request, then only TLS records
    let mut rest: &[u8] = &seen.cleartext;
    if !c.ldaps {
        match ber::decode_one(rest) {
            Ok((t, n)) => {
                let ok = matches!(Msg::from_tlv(&t, &mut vec![]), Ok(Msg { op: Op::ExtReq { ref name, val: None }, controls: None, .. }) if name == STARTTLS_OID);
                if !ok {
                    bad("first-cleartext-message", "the first cleartext message is not a bare StartTLS extended request".into());
                }
                rest = &rest[n..];
            }
            Err(_) => {
                if !seen.cleartext.is_empty() {
                    bad("first-cleartext-message", "the first cleartext bytes are not an LDAP message".into());
                }
                rest = &[];
            }
        }
    }
    if !rest.is_empty() && rest[0] != 0x16 {
        bad("cleartext-after-starttls", format!("bytes that are not a TLS handshake record were sent in cleartext: {}", ber::hex(rest)));
    }
    // 2. outcome
    match (&got, should_succeed) {
        (Ok(_), false) => {
            let why = if !answer_ok {
                "StartTLS was not answered with success"
            } else if c.hs != Handshake::Normal {
                "the handshake failed"
            } else {
                "the certificate is not trusted for the host name and verification was not disabled"
            };
            let key = if !answer_ok { "downgrade:starttls-refused" } else if c.hs != Handshake::Normal { "downgrade:handshake-failed" } else { "untrusted-certificate-accepted" };
            bad(key, format!("a usable handle was returned although {}", why));
        }
        // cleartext after the StartTLS response, before the handshake: the property asks that it is
        // never interpreted inside the protected session; going on without it and giving up the
        // establishment both satisfy that
        (Err(_), true) if matches!(c.answer, Answer::Rc0PlusForgedFrame | Answer::Rc0PlusForgedPrefix) => {}
        (Err(e), true) => {
            bad("valid-setup-rejected", format!("establishment failed with {} although everything is in order", e));
        }
        (Ok(bind), true) => {
            // 3. the bind travelled inside TLS and got the in-TLS answer, never the injected one
            if !seen.handshake_ok || !seen.in_tls.iter().any(|m| m.contains("BindReq")) {
                bad("bind-not-in-tls", "the bind after establishment was not seen inside the TLS session".into());
            }
            if *bind != Some(49) {
                bad("injected-cleartext-interpreted", format!("the bind returned {:?}; the server's in-TLS answer is rc 49 (the injected cleartext answer is rc 0)", bind));
            }
        }
        (Err(_), false) => {}
    }
    true
}

/// verification was explicitly disabled: by the setting, or by a caller-supplied connector built that way
fn verification_off(c: &Case) -> bool {
    match c.connector {
        None => c.no_verify,
        Some("noverify-last") => true,
        Some(_) => false,
    }
}

pub fn run(tier: Tier) -> i32 {
    std::env::set_var("SSL_CERT_FILE", "/verif/build/pki/ca.pem");
    std::env::set_var("SSL_CERT_DIR", "/verif/build/pki/empty");
    let rep = Reporter::new("C17", tier);
    let mut cases = vec![];
    let certs = ["good", "dnsonly", "wrongname", "selfsigned"];
    let answers = [
        Answer::Rc(0),
        Answer::Rc(1),
        Answer::Rc(2),
        Answer::Rc(52),
        Answer::Rc(53),
        Answer::Rc(80),
        Answer::Garbage,
        Answer::Close,
        Answer::Rc0PlusForgedFrame,
        Answer::Rc0PlusForgedPrefix,
        Answer::WrongId,
        Answer::NoticeThenRc0,
        Answer::EmptyRc,
        Answer::Rc2Pow32,
        Answer::RcNoName(0),
        Answer::RcNoName(2),
        Answer::RcNoName(80),
        Answer::Rc(10),
        Answer::Rc(14),
        Answer::PaddedRc(0),
        Answer::PaddedRc(53),
    ];
    for ldaps in [true, false] {
        for host in ["localhost", "127.0.0.1"] {
            for no_verify in [false, true] {
                for cert in certs {
                    for hs in [Handshake::Normal, Handshake::Close, Handshake::Garbage] {
                        let ans: Vec<Answer> = if ldaps { vec![Answer::Rc(0)] } else { answers.to_vec() };
                        for answer in ans {
                            // a StartTLS answer under a foreign ID is never matched: the client waits
                            // for the connection timeout whatever certificate would have followed
                            if answer == Answer::WrongId && !(cert == "good" && hs == Handshake::Normal) {
                                continue;
                            }
                            cases.push(Case { ldaps, host, no_verify, cert, answer, hs, cloned: false, both: false, connector: None, no_timeout: false, toggled: false, pre: false });
                            cases.push(Case { ldaps, host, no_verify, cert, answer, hs, cloned: true, both: false, connector: None, no_timeout: false, toggled: false, pre: false });
                        }
                    }
                }
            }
        }
    }
    // thorough: every non-zero result code as the StartTLS answer
    if tier == Tier::Thorough {
        for rc in (1u32..=123).chain([4096, 65535]) {
            for no_verify in [false, true] {
                cases.push(Case { ldaps: false, host: "localhost", no_verify, cert: "good", answer: Answer::Rc(rc), hs: Handshake::Normal, cloned: false, both: false, connector: None, no_timeout: false, toggled: false, pre: false });
            }
        }
    }
    // without a connection timeout: a refusal, garbage or a closed connection in place of the
    // StartTLS answer, and a failed handshake, end the establishment by themselves
    for no_verify in [false, true] {
        for (ldaps, answer, hs) in [
            (false, Answer::Close, Handshake::Normal),
            (false, Answer::WrongIdThenClose, Handshake::Normal),
            (false, Answer::NoticeThenRc0, Handshake::Normal),
            (false, Answer::Garbage, Handshake::Normal),
            (false, Answer::Rc(2), Handshake::Normal),
            (false, Answer::Rc(0), Handshake::Close),
            (false, Answer::Rc(0), Handshake::Garbage),
            (false, Answer::Rc(0), Handshake::Normal),
            (true, Answer::Rc(0), Handshake::Close),
            (true, Answer::Rc(0), Handshake::Garbage),
            (true, Answer::Rc(0), Handshake::Normal),
        ] {
            cases.push(Case { ldaps, host: "localhost", no_verify, cert: "good", answer, hs, cloned: false, both: false, connector: None, no_timeout: true, toggled: false, pre: false });
        }
    }
    // the TCP connection opened by the caller (set_std_stream): StartTLS / ldaps apply all the same
    // (the certificate is checked against the host of the URL, whoever opened the connection:
    // a name which only the certificate knows, an address which the certificate does not list)
    for ldaps in [true, false] {
        for host in ["localhost", "127.0.0.1", "other.invalid"] {
            for cert in ["good", "dnsonly", "wrongname"] {
                for answer in if ldaps { vec![Answer::Rc(0)] } else { vec![Answer::Rc(0), Answer::Rc(2), Answer::Rc0PlusForgedFrame] } {
                    if host != "localhost" && !matches!(answer, Answer::Rc(0)) {
                        continue;
                    }
                    for no_verify in [false, true] {
                        cases.push(Case { ldaps, host, no_verify, cert, answer, hs: Handshake::Normal, cloned: false, both: false, connector: None, no_timeout: false, toggled: false, pre: true });
                    }
                }
            }
        }
    }
    // the verification setting given twice: the last call counts
    for ldaps in [true, false] {
        for no_verify in [false, true] {
            for cert in ["good", "wrongname", "selfsigned"] {
                for cloned in [false, true] {
                    cases.push(Case { ldaps, host: "localhost", no_verify, cert, answer: Answer::Rc(0), hs: Handshake::Normal, cloned, both: false, connector: None, no_timeout: false, toggled: true, pre: false });
                }
            }
        }
    }
    // an ldaps URL with StartTLS switched on as well
    for cert in ["good", "wrongname"] {
        for cloned in [false, true] {
            cases.push(Case { ldaps: true, host: "localhost", no_verify: false, cert, answer: Answer::Rc(0), hs: Handshake::Normal, cloned, both: true, connector: None, no_timeout: false, toggled: false, pre: false });
        }
    }
    // a caller-supplied connector, set before or after the other settings: StartTLS, the refusal
    // handling and the connector's own verification policy all stay in force
    for ldaps in [true, false] {
        for connector in ["last", "first", "noverify-last"] {
            for cert in ["good", "wrongname", "selfsigned"] {
                let answers: Vec<Answer> = if ldaps { vec![Answer::Rc(0)] } else { vec![Answer::Rc(0), Answer::Rc(2), Answer::Rc0PlusForgedFrame] };
                for answer in answers {
                    for cloned in [false, true] {
                        cases.push(Case { ldaps, host: "localhost", no_verify: false, cert, answer, hs: Handshake::Normal, cloned, both: false, connector: Some(connector), no_timeout: false, toggled: false, pre: false });
                    }
                }
            }
        }
    }
    // URLs without a host (localhost at the default port): run one at a time on the fixed ports
    let mut hostless = vec![];
    for ldaps in [true, false] {
        for cert in certs {
            for no_verify in [false, true] {
                hostless.push(Case { ldaps, host: "", no_verify, cert, answer: Answer::Rc(0), hs: Handshake::Normal, cloned: false, both: false, connector: None, no_timeout: false, toggled: false, pre: false });
            }
        }
        hostless.push(Case { ldaps, host: "", no_verify: false, cert: "good", answer: if ldaps { Answer::Rc(0) } else { Answer::Rc(2) }, hs: if ldaps { Handshake::Garbage } else { Handshake::Normal }, cloned: false, both: false, connector: None, no_timeout: false, toggled: false, pre: false });
    }
    let mut hostless_run = 0usize;
    {
        let _ports = super::lock_default_ports();
        for c in &hostless {
            if judge(&rep, c) {
                hostless_run += 1;
            }
        }
    }
    let hostless_skipped = hostless.len() - hostless_run;
    let total = cases.len() + hostless_run;
    // cases are independent (own listener each): run them 8 at a time
    let cases = Arc::new(cases);
    let next = std::sync::atomic::AtomicUsize::new(0);
    std::thread::scope(|s| {
        for _ in 0..16 {
            s.spawn(|| loop {
                let i = next.fetch_add(1, std::sync::atomic::Ordering::Relaxed);
                if i >= cases.len() {
                    break;
                }
                let t1 = std::time::Instant::now();
                judge(&rep, &cases[i]);
                if std::env::var("VERIF_C17_TIMES").is_ok() && t1.elapsed().as_millis() > 500 {
                    eprintln!("slow case ({} ms): {:?}", t1.elapsed().as_millis(), cases[i]);
                }
            });
        }
    });
    let succeed = cases.iter().chain(hostless.iter().take(hostless_run)).filter(|c| (c.ldaps || matches!(c.answer, Answer::Rc(0) | Answer::RcNoName(0) | Answer::PaddedRc(0) | Answer::Rc0PlusForgedFrame | Answer::Rc0PlusForgedPrefix | Answer::NoticeThenRc0)) && c.hs == Handshake::Normal && (verification_off(c) || trusted_for(c.cert, c.host))).count();
    let c = cov(vec![
        ("evaluations", json!(total)),
        ("distinct_nontrivial", json!(total)),
        ("rule", json!("product of {ldaps, ldap+StartTLS} x URL host {localhost, 127.0.0.1} x no_tls_verify x certificate {CA-signed for localhost+127.0.0.1, CA-signed for localhost only, CA-signed for another name, self-signed} x StartTLS answer {rc 0, rc 1/2/52/53/80, garbage, close, rc 0 + complete forged cleartext BindResponse, rc 0 + forged frame prefix completed by the genuine in-TLS answer, success under a wrong message ID (also followed by a hang-up), an unsolicited notification before the genuine success, a result code without content octets, result code 2^32, rc 0/2/80 without the responseName} x handshake {normal, close, garbage} (the wrong-ID answer with one certificate; thorough: every result code 1..=123, 4096, 65535); plus the failure behaviours without any connection timeout, set_no_tls_verify() called twice with opposite values, a TCP connection opened by the caller (set_std_stream), ldaps with StartTLS also switched on, a caller-supplied connector (verifying / accepting anything) set before or after the other settings, and URLs without a host (localhost at 636/389, all four certificates x verification); every case runs the real LdapConnAsync::with_settings against a TLS server on 127.0.0.1 built with native-tls and the test PKI; each case is distinct")),
        ("hostless_url_cases_run", json!(hostless_run)),
        ("hostless_url_cases_skipped_port_not_bindable", json!(hostless_skipped)),
        ("cases_that_must_succeed", json!(succeed)),
        ("cases_that_must_fail", json!(total - succeed)),
        ("samples", json!([format!("{:?}", cases[0]), format!("{:?}", cases[cases.len() / 2])])),
        ("exhaustive", json!(true)),
    ]);
    rep.finish("fault_enumeration", c, vec!["OpenSSL honours SSL_CERT_FILE (the test CA is the only trust anchor)".into(), "default feature set (native-tls); tls-rustls is out of scope".into()])
}

pub fn replay(v: &serde_json::Value) -> i32 {
    println!("{}", serde_json::to_string_pretty(&v["replay"]).unwrap());
    println!("(re-run ./check C17 quick to reproduce; the case above gives the configuration and server behaviour)");
    0
}
