//! C04, real-socket lane: "Unbind and dropping the last handle close the transport" over the
//! transports the in-memory seam cannot reach (the TCP / Unix / TLS arms of the connection type).

use super::with_deadline;
use crate::common::Reporter;
use crate::vcore::msg::{self, Msg, Op, Res};
use ldap3::{LdapConnAsync, LdapConnSettings};
use serde_json::json;
use std::io::{Read, Write};
use std::sync::atomic::{AtomicBool, Ordering};
use std::sync::Arc;
use std::time::{Duration, Instant};

#[derive(Clone, Copy, Debug, PartialEq, Eq)]
pub enum Transport {
    Tcp,
    Unix,
    Tls,
}

#[derive(Clone, Copy, Debug, PartialEq, Eq)]
pub enum How {
    /// unbind through a clone while the original handle stays alive
    UnbindWithOtherHandleAlive,
    /// drop every handle without unbinding
    DropLastHandle,
}

/// serve LDAP on `s`: answer binds, never close on our own; set `eof` when the peer's end-of-stream is seen
fn serve<S: Read + Write>(mut s: S, eof: Arc<AtomicBool>, saw_unbind: Arc<AtomicBool>) {
    let mut all = vec![];
    let mut parsed = 0;
    let mut buf = [0u8; 2048];
    loop {
        match s.read(&mut buf) {
            Ok(0) => {
                eof.store(true, Ordering::SeqCst);
                return;
            }
            Err(_) => return,
            Ok(n) => all.extend_from_slice(&buf[..n]),
        }
        if let Ok((frames, used)) = msg::split_frames(&all[parsed..]) {
            parsed += used;
            for f in frames {
                if let Ok(m) = Msg::from_tlv(&f, &mut vec![]) {
                    match m.op {
                        Op::BindReq { .. } => {
                            let _ = s.write_all(&Msg { id: m.id, op: Op::BindResp(Res::new(0, "", ""), None), controls: None }.encode());
                        }
                        Op::UnbindReq => saw_unbind.store(true, Ordering::SeqCst),
                        _ => {}
                    }
                }
            }
        }
    }
}

fn one_case(t: Transport, how: How, dir: &str) -> Result<(), String> {
    let eof = Arc::new(AtomicBool::new(false));
    let saw_unbind = Arc::new(AtomicBool::new(false));
    let (e2, u2) = (eof.clone(), saw_unbind.clone());
    let url;
    let mut settings = LdapConnSettings::new().set_conn_timeout(Duration::from_secs(10));
    match t {
        Transport::Tcp | Transport::Tls => {
            let l = std::net::TcpListener::bind("127.0.0.1:0").map_err(|e| e.to_string())?;
            let port = l.local_addr().unwrap().port();
            url = format!("{}://localhost:{}", if t == Transport::Tls { "ldaps" } else { "ldap" }, port);
            if t == Transport::Tls {
                settings = settings.set_no_tls_verify(true);
            }
            std::thread::spawn(move || {
                if let Ok((tcp, _)) = l.accept() {
                    let _ = tcp.set_read_timeout(Some(Duration::from_secs(15)));
                    if t == Transport::Tls {
                        let p12 = std::fs::read("/verif/build/pki/good.p12").expect("pkcs12");
                        let id = native_tls::Identity::from_pkcs12(&p12, "verif").expect("identity");
                        let acc = native_tls::TlsAcceptor::new(id).expect("acceptor");
                        if let Ok(tls) = acc.accept(tcp) {
                            serve(tls, e2, u2);
                        }
                    } else {
                        serve(tcp, e2, u2);
                    }
                }
            });
        }
        Transport::Unix => {
            let path = format!("{}/c04-{:?}.sock", dir, how);
            let _ = std::fs::remove_file(&path);
            let l = std::os::unix::net::UnixListener::bind(&path).map_err(|e| e.to_string())?;
            url = format!("ldapi://{}", path.replace('/', "%2F"));
            std::thread::spawn(move || {
                if let Ok((s, _)) = l.accept() {
                    let _ = s.set_read_timeout(Some(Duration::from_secs(15)));
                    serve(s, e2, u2);
                }
            });
        }
    }
    let rt = tokio::runtime::Builder::new_current_thread().enable_all().build().unwrap();
    rt.block_on(async {
        let (conn, mut ldap) = LdapConnAsync::with_settings(settings, &url).await.map_err(|e| format!("setup failed: {}", e))?;
        let driver = tokio::spawn(async move { conn.drive().await.map_err(|e| e.to_string()) });
        let r = ldap.with_timeout(Duration::from_secs(10)).simple_bind("cn=x", "pw").await.map_err(|e| format!("bind failed: {}", e))?;
        if r.rc != 0 {
            return Err(format!("bind rc {}", r.rc));
        }
        let keep_alive = match how {
            How::UnbindWithOtherHandleAlive => {
                let mut other = ldap.clone();
                other.unbind().await.map_err(|e| format!("unbind failed: {}", e))?;
                Some(ldap)
            }
            How::DropLastHandle => {
                drop(ldap);
                None
            }
        };
        // the server must see the end of the stream although (first variant) a handle is still alive
        let t0 = Instant::now();
        while !eof.load(Ordering::SeqCst) && t0.elapsed() < Duration::from_secs(10) {
            tokio::time::sleep(Duration::from_millis(5)).await;
        }
        let seen = eof.load(Ordering::SeqCst);
        if how == How::UnbindWithOtherHandleAlive && !saw_unbind.load(Ordering::SeqCst) {
            return Err("the server never received the UnbindRequest".into());
        }
        if !seen {
            return Err(format!("the transport is still open 3 s after {} (the server never saw end-of-stream)", if how == How::DropLastHandle { "the last handle was dropped" } else { "unbind() returned" }));
        }
        if how == How::DropLastHandle {
            // the driver must have returned as well
            match tokio::time::timeout(Duration::from_secs(10), driver).await {
                Ok(_) => {}
                Err(_) => return Err("drive() did not return after the last handle was dropped".into()),
            }
        }
        drop(keep_alive);
        Ok(())
    })
}

/// returns the number of cases run
pub fn run(rep: &Reporter) -> u64 {
    std::env::set_var("SSL_CERT_FILE", "/verif/build/pki/ca.pem");
    let dir = super::scratch_dir();
    let mut n = 0;
    for t in [Transport::Tcp, Transport::Unix, Transport::Tls] {
        for how in [How::UnbindWithOtherHandleAlive, How::DropLastHandle] {
            n += 1;
            let d = dir.clone();
            let r = with_deadline(Duration::from_secs(45), move || crate::common::catch(move || one_case(t, how, &d)));
            let replay = json!({"engine":"c04real","transport":format!("{:?}", t),"how":format!("{:?}", how)});
            match r {
                None => {
                    rep.violation(&format!("term:real-socket-hang:{:?}", t), &format!("{:?}/{:?}: the case did not finish within 15 s", t, how), replay);
                }
                Some(Err(p)) => {
                    rep.violation(&format!("term:real-socket-panic:{:?}", t), &format!("{:?}/{:?}: panicked: {}", t, how, p), replay);
                }
                Some(Ok(Err(e))) => {
                    rep.violation(&format!("term:transport-open:real-{:?}:{:?}", t, how), &format!("{:?}/{:?}: {}", t, how, e), replay);
                }
                Some(Ok(Ok(()))) => {}
            }
        }
    }
    let _ = std::fs::remove_dir_all(&dir);
    n
}
