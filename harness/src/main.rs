mod common;
mod e1;
mod e2;
mod e4;
mod lanes;
mod vcore;

use common::Tier;

fn main() {
    let args: Vec<String> = std::env::args().collect();
    if args.len() < 3 {
        eprintln!("usage: vcheck <Cxx> <quick|thorough> | vcheck <Cxx> --replay <file>");
        std::process::exit(2);
    }
    common::quiet_panics();
    let prop = args[1].as_str();
    if args[2] == "--depth" {
        std::process::exit(lanes::c11::depth_child(args[3].parse().expect("depth"), args.get(4).map(|s| s.as_str()).unwrap_or("universal")));
    }
    if args[2] == "--replay" {
        let v: serde_json::Value = serde_json::from_str(&std::fs::read_to_string(&args[3]).expect("replay file")).expect("json");
        let code = match v["replay"]["engine"].as_str() {
            Some("e1") | Some("e2") | Some("c04real") => e1::replay(&v),
            Some("c02") => lanes::c02::replay(&v),
            Some("c03") => lanes::c03::replay(&v),
            Some("c06") => lanes::c06::replay(&v),
            Some("c07") => lanes::c07::replay(&v),
            Some("c08") => lanes::c08::replay(&v),
            Some("c09") => lanes::c09::replay(&v),
            Some("c11") => lanes::c11::replay(&v),
            Some("c14") => lanes::c14::replay(&v),
            Some("c15") => lanes::c15::replay(&v),
            Some("c17") => e4::c17::replay(&v),
            Some("c18") => e4::c18::replay(&v),
            Some("c19") => lanes::c19::replay(&v),
            Some("c20") => lanes::c20::replay(&v),
            other => {
                eprintln!("unknown replay engine {:?}", other);
                2
            }
        };
        std::process::exit(code);
    }
    let tier = match args[2].as_str() {
        "quick" => Tier::Quick,
        "thorough" => Tier::Thorough,
        _ => {
            eprintln!("tier must be quick or thorough");
            std::process::exit(2);
        }
    };
    let code = match std::panic::catch_unwind(|| dispatch(prop, tier)) {
        Ok(c) => c,
        Err(_) => {
            // a panic of the machinery itself is never a verdict
            println!("verif-machinery: the harness panicked: {}", common::LAST_HARNESS_PANIC.lock().map(|g| g.clone()).unwrap_or_default());
            2
        }
    };
    std::process::exit(code);
}

fn dispatch(prop: &str, tier: Tier) -> i32 {
    match prop {
        "C01" | "C13" | "C04" | "C05" | "C10" | "C12" | "C16" => e1::run(prop, tier),
        "C02" => lanes::c02::run(tier),
        "C03" => lanes::c03::run(tier),
        "C06" => lanes::c06::run(tier),
        "C07" => lanes::c07::run(tier),
        "C08" => lanes::c08::run(tier),
        "C09" => lanes::c09::run(tier),
        "C11" => lanes::c11::run(tier),
        "C14" => lanes::c14::run(tier),
        "C15" => lanes::c15::run(tier),
        "C17" => e4::c17::run(tier),
        "C18" => e4::c18::run(tier),
        "C19" => lanes::c19::run(tier),
        "C20" => lanes::c20::run(tier),
        _ => {
            eprintln!("unknown property {}", prop);
            2
        }
    }
}
