//! C03 — results handed to the caller equal what the server encoded (bounded-exhaustive).

use crate::common::{catch, cov, par_for, Reporter, Tier};
use crate::vcore::ber::{self, LenForm};
use crate::vcore::msg::{Ctl, Msg, Op, Res};
use bytes::BytesMut;
use ldap3::controls::Control;
use ldap3::exop::Exop;
use ldap3::result::{CompareResult, ExopResult};
use ldap3::{LdapResult, SearchResult};
use serde_json::json;
use std::sync::atomic::{AtomicU64, Ordering};
use std::sync::Arc;

const TYPES: [u32; 8] = [1, 5, 7, 9, 11, 13, 15, 24];

fn strings() -> Vec<String> {
    vec!["".into(), "cn=admin,dc=example".into(), "ć€𐍈".into(), "m".repeat(130), "Ω".repeat(150)]
}

fn ctl_lists() -> Vec<Vec<Ctl>> {
    let mut singles: Vec<Ctl> = vec![];
    for oid in ["1.2.840.113556.1.4.319", "1.3.6.1.1.13.2", "9.9.9"] {
        for crit in [None, Some(false), Some(true)] {
            for val in [None, Some(vec![]), Some(vec![0x30, 0x00]), Some(vec![0xff; 130])] {
                singles.push(Ctl { oid: oid.as_bytes().to_vec(), crit, val });
            }
        }
    }
    let mut out: Vec<Vec<Ctl>> = vec![vec![]];
    for a in &singles {
        out.push(vec![a.clone()]);
    }
    for (i, a) in singles.iter().enumerate() {
        let b = &singles[(i * 7 + 3) % singles.len()];
        out.push(vec![a.clone(), b.clone()]);
    }
    out
}

fn mk_op(ty: u32, res: Res, name: Option<Vec<u8>>, val: Option<Vec<u8>>, creds: Option<Vec<u8>>) -> Op {
    match ty {
        1 => Op::BindResp(res, creds),
        5 => Op::SearchDone(res),
        7 => Op::ModifyResp(res),
        9 => Op::AddResp(res),
        11 => Op::DelResp(res),
        13 => Op::ModDnResp(res),
        15 => Op::CompareResp(res),
        _ => Op::ExtResp(res, name, val),
    }
}

struct Case {
    msg: Msg,
    name: Option<Vec<u8>>,
    val: Option<Vec<u8>>,
    creds: Option<Vec<u8>>,
}

/// BER allows any non-zero octet for TRUE: the same message with every TRUE written as `octet`
fn with_true_as(t: &ber::Tlv, octet: u8) -> ber::Tlv {
    let mut t = t.clone();
    fn walk(t: &mut ber::Tlv, octet: u8) {
        match &mut t.body {
            ber::Body::Prim(v) => {
                if t.class == ber::UNI && t.tag == 1 && v.as_slice() == [0xff] {
                    *v = vec![octet];
                }
            }
            ber::Body::Cons(c) => c.iter_mut().for_each(|x| walk(x, octet)),
        }
    }
    walk(&mut t, octet);
    t
}

fn judge(rep: &Reporter, c: &Case, bytes: &[u8], evals: &AtomicU64) {
    evals.fetch_add(1, Ordering::Relaxed);
    let replay = || json!({"engine":"c03","hex":ber::hex(bytes)});
    let b2 = bytes.to_vec();
    let r = catch(move || {
        let mut buf = BytesMut::from(&b2[..]);
        let d = ldap3::verif::decode(&mut buf);
        (d.map(|o| o.map(|(id, t, ctrls)| (id, ldap3::verif::result_from(t), ctrls))), buf.len())
    });
    let (res, left) = match r {
        Ok(x) => x,
        Err(p) => {
            rep.violation("result:panic", &format!("decoding a well-formed response panicked: {} ({})", p, ber::hex(bytes)), replay());
            return;
        }
    };
    let (id, (lr, exop, creds), ctrls) = match res {
        Ok(Some(x)) => x,
        Ok(None) => {
            rep.violation("result:need-more", &format!("complete well-formed response not decoded ({})", ber::hex(bytes)), replay());
            return;
        }
        Err(e) => {
            rep.violation("result:rejected", &format!("well-formed response rejected: {} ({})", e, ber::hex(bytes)), replay());
            return;
        }
    };
    if left != 0 {
        rep.violation("result:leftover", &format!("{} bytes left after decoding one message", left), replay());
    }
    let (want_res, _) = match &c.msg.op {
        Op::BindResp(r, _) | Op::ExtResp(r, _, _) => (r.clone(), ()),
        Op::SearchDone(r) | Op::ModifyResp(r) | Op::AddResp(r) | Op::DelResp(r) | Op::ModDnResp(r) | Op::CompareResp(r) => (r.clone(), ()),
        _ => unreachable!(),
    };
    let s = |b: &[u8]| String::from_utf8(b.to_vec()).unwrap();
    let mut bad = vec![];
    if id as i64 != c.msg.id {
        bad.push(format!("id {} != {}", id, c.msg.id));
    }
    if lr.rc as i64 != want_res.rc {
        bad.push(format!("rc {} != {}", lr.rc, want_res.rc));
    }
    if lr.matched != s(&want_res.matched) {
        bad.push(format!("matched {:?} != {:?}", lr.matched, s(&want_res.matched)));
    }
    if lr.text != s(&want_res.text) {
        bad.push(format!("text {:?} != {:?}", lr.text, s(&want_res.text)));
    }
    let want_refs: Vec<String> = want_res.referral.clone().unwrap_or_default().iter().map(|u| s(u)).collect();
    if lr.refs != want_refs {
        bad.push(format!("refs {:?} != {:?}", lr.refs, want_refs));
    }
    let want_ctrls: Vec<(String, bool, Option<Vec<u8>>)> =
        c.msg.controls.clone().unwrap_or_default().iter().map(|x| (s(&x.oid), x.crit.unwrap_or(false), x.val.clone())).collect();
    let got_ctrls: Vec<(String, bool, Option<Vec<u8>>)> = ctrls.iter().map(|x: &Control| (x.1.ctype.clone(), x.1.crit, x.1.val.clone())).collect();
    if got_ctrls != want_ctrls {
        bad.push(format!("controls {:?} != {:?}", got_ctrls, want_ctrls));
    }
    for x in &ctrls {
        let known = matches!(x.1.ctype.as_str(), "1.2.840.113556.1.4.319" | "1.3.6.1.1.13.2");
        if x.0.is_some() != known {
            bad.push(format!("control {} known-type tag is {:?}", x.1.ctype, x.0));
        }
    }
    if exop.name != c.name.as_ref().map(|n| s(n)) || exop.val != c.val {
        bad.push(format!("exop name/value {:?}/{:?} != {:?}/{:?}", exop.name, exop.val, c.name, c.val));
    }
    if creds != c.creds {
        bad.push(format!("serverSaslCreds {:?} != {:?}", creds, c.creds));
    }
    if !bad.is_empty() {
        rep.violation(&format!("result:field:{}", bad[0].split(' ').next().unwrap_or("")), &format!("{} ({})", bad.join("; "), ber::hex(bytes)), replay());
    }
}

fn helpers(rep: &Reporter, evals: &AtomicU64) {
    let mk = |rc: u32| LdapResult { rc, matched: "m".into(), text: "t".into(), refs: vec![], ctrls: vec![] };
    for rc in (0..=255u32).chain([4096, i32::MAX as u32]) {
        evals.fetch_add(9, Ordering::Relaxed);
        let checks: Vec<(&str, bool, bool)> = vec![
            ("LdapResult::success", mk(rc).success().is_ok(), rc == 0),
            ("LdapResult::non_error", mk(rc).non_error().is_ok(), rc == 0 || rc == 10),
            ("SearchResult::success", SearchResult(vec![], mk(rc)).success().is_ok(), rc == 0),
            ("SearchResult::non_error", SearchResult(vec![], mk(rc)).non_error().is_ok(), rc == 0 || rc == 10),
            ("ExopResult::success", ExopResult(Exop { name: None, val: None }, mk(rc)).success().is_ok(), rc == 0),
            ("ExopResult::non_error", ExopResult(Exop { name: None, val: None }, mk(rc)).non_error().is_ok(), rc == 0 || rc == 10),
            ("CompareResult::non_error", CompareResult(mk(rc)).non_error().is_ok(), rc == 5 || rc == 6 || rc == 10),
            ("CompareResult::equal(ok)", CompareResult(mk(rc)).equal().is_ok(), rc == 5 || rc == 6),
            ("CompareResult::equal(value)", CompareResult(mk(rc)).equal().unwrap_or(false), rc == 6),
        ];
        for (name, got, want) in checks {
            if got != want {
                rep.violation(&format!("helper:{}", name), &format!("{} for rc {} is {} (documented: {})", name, rc, got, want), json!({"engine":"c03","helper":name,"rc":rc}));
            }
        }
        // the error side carries the same result
        if rc != 0 {
            match mk(rc).success() {
                Err(ldap3::LdapError::LdapResult { result }) if result.rc == rc && result.text == "t" => {}
                other => {
                    rep.violation("helper:error-payload", &format!("success() on rc {} gave {:?}", rc, other.map(|r| r.rc)), json!({"engine":"c03","helper":"payload","rc":rc}));
                }
            }
        }
    }
}

pub fn run(tier: Tier) -> i32 {
    let rep = Arc::new(Reporter::new("C03", tier));
    // the bounds that used to be the thorough tier's are cheap enough for every run
    let deep = tier == Tier::Thorough;
    let tier = Tier::Thorough;
    let _ = deep;
    let evals = AtomicU64::new(0);
    let distinct = AtomicU64::new(0);
    let strs = strings();
    let cls = ctl_lists();
    let rcs: Vec<i64> = (0..=122).chain([4096, i32::MAX as i64]).collect();
    let refs: Vec<Option<Vec<Vec<u8>>>> = vec![
        None,
        Some(vec![b"ldap://a/dc=x".to_vec()]),
        Some(vec![b"ldap://a/dc=x".to_vec(), "ldaps://b/o=é??sub".as_bytes().to_vec()]),
        // the same URI twice in a row, once more after another one, and a non-ASCII host
        Some(vec![b"ldap://a/dc=x".to_vec(), b"ldap://a/dc=x".to_vec(), "ldap://réf.example/".as_bytes().to_vec(), b"ldap://a/dc=x".to_vec()]),
    ];
    let forms = [LenForm::Minimal, LenForm::Long(1), LenForm::Long(2), LenForm::Long(3), LenForm::Long(4), LenForm::Long(8), LenForm::Long(9), LenForm::Long(12)];

    // product 1: type x rc x (strings, referral, controls rotating)
    let n1 = (TYPES.len() * rcs.len()) as u64;
    // product 2: type x matched x text x referral x control list (rc rotating over a few)
    let n2 = (TYPES.len() * strs.len() * strs.len() * refs.len() * cls.len()) as u64;
    let mk_case = |ty: u32, rc: i64, mi: usize, ti: usize, ri: usize, ci: usize, k: usize| -> Case {
        let res = Res { rc, matched: strs[mi].as_bytes().to_vec(), text: strs[ti].as_bytes().to_vec(), referral: refs[ri].clone() };
        let (name, val) = if ty == 24 {
            match k % 5 {
                0 => (None, None),
                1 => (Some(b"1.3.6.1.4.1.4203.1.11.3".to_vec()), None),
                2 => (None, Some(b"dn:cn=x".to_vec())),
                3 => (Some(b"1.3.6.1.4.1.4203.1.11.1".to_vec()), Some(vec![0x30, 0x05, 0x80, 0x03, 0xff, 0x00, 0x80])),
                _ => (Some(b"1.2.3".to_vec()), Some(vec![])),
            }
        } else {
            (None, None)
        };
        let creds = if ty == 1 && k % 4 == 1 { Some(vec![1, 2, 3]) } else if ty == 1 && k % 4 == 2 { Some(vec![]) } else if ty == 1 && k % 4 == 3 { Some(vec![0xff, 0x00, 0x80, 0xc3]) } else { None };
        let controls = if cls[ci].is_empty() && k % 2 == 0 { None } else { Some(cls[ci].clone()) };
        let ids = [1i64, 127, 128, 255, 256, 32768, 65536, i32::MAX as i64];
        Case { msg: Msg { id: ids[k % ids.len()], op: mk_op(ty, res, name.clone(), val.clone(), creds.clone()), controls }, name, val, creds }
    };
    par_for(n1, |i| {
        let ty = TYPES[(i as usize) % TYPES.len()];
        let rc = rcs[(i as usize) / TYPES.len()];
        let k = i as usize;
        let c = mk_case(ty, rc, k % strs.len(), (k / 3) % strs.len(), k % refs.len(), k % cls.len(), k);
        let t = c.msg.to_tlv();
        distinct.fetch_add(1, Ordering::Relaxed);
        judge(&rep, &c, &ber::encode(&t), &evals);
        // every single length field in every form
        let n = t.nodes();
        for node in 0..n {
            for f in &forms[1..] {
                judge(&rep, &c, &ber::encode_forms(&t, &mut |k| if k == node { *f } else { LenForm::Minimal }), &evals);
            }
        }
    });
    let stride2 = tier.pick(5u64, 1u64);
    par_for(n2 / stride2, |j| {
        let i = (j * stride2) as usize;
        let mut x = i;
        let ty = TYPES[x % TYPES.len()];
        x /= TYPES.len();
        let mi = x % strs.len();
        x /= strs.len();
        let ti = x % strs.len();
        x /= strs.len();
        let ri = x % refs.len();
        x /= refs.len();
        let ci = x % cls.len();
        let c = mk_case(ty, [0i64, 10, 49, 80][i % 4], mi, ti, ri, ci, i);
        let t = c.msg.to_tlv();
        distinct.fetch_add(1, Ordering::Relaxed);
        judge(&rep, &c, &ber::encode(&t), &evals);
        // criticality TRUE written as other non-zero octets
        if c.msg.controls.as_ref().map_or(false, |cs| cs.iter().any(|x| x.crit == Some(true))) {
            for o in [0x01u8, 0x7f, 0x80, 0xfe] {
                judge(&rep, &c, &ber::encode(&with_true_as(&t, o)), &evals);
            }
        }
        // all length fields at once in each form
        for f in &forms[1..] {
            judge(&rep, &c, &ber::encode_forms(&t, &mut |_| *f), &evals);
        }
    });
    // sizes and counts beyond the small pools: diagnostic text / matched DN of 1000..100000
    // octets, referrals with up to 300 URIs, up to 300 controls, for every response type
    let scale: Vec<usize> = (0..=40).chain([63, 64, 65, 100, 127, 128, 129, 255, 256, 257, 300, 1000, 5000, 20000, 100000]).collect();
    par_for((scale.len() * TYPES.len()) as u64, |i| {
        let ty = TYPES[(i as usize) % TYPES.len()];
        let n = scale[(i as usize) / TYPES.len()];
        let k = i as usize;
        // (a) long strings
        let res = Res { rc: 32, matched: format!("ou={}", "m".repeat(n)).into_bytes(), text: "t".repeat(n).into_bytes(), referral: None };
        let c = Case { msg: Msg { id: 7, op: mk_op(ty, res, None, None, None), controls: None }, name: None, val: None, creds: None };
        distinct.fetch_add(1, Ordering::Relaxed);
        judge(&rep, &c, &c.msg.encode(), &evals);
        // (b) many URIs / many controls (counts up to 300)
        if n <= 300 {
            let uris: Vec<Vec<u8>> = (0..n).map(|j| format!("ldap://host{}/dc=x{}", j, j % 7).into_bytes()).collect();
            let ctrls: Vec<Ctl> = (0..n).map(|j| Ctl { oid: format!("1.2.{}", j).into_bytes(), crit: if j % 3 == 0 { Some(j % 2 == 0) } else { None }, val: if j % 2 == 0 { Some(vec![j as u8; j % 4]) } else { None } }).collect();
            let res = Res { rc: 10, matched: vec![], text: b"many".to_vec(), referral: if n == 0 { None } else { Some(uris) } };
            let (name, val) = if ty == 24 { (Some(b"1.2.3".to_vec()), Some(vec![k as u8; n])) } else { (None, None) };
            let creds = if ty == 1 { Some(vec![0xfe; n]) } else { None };
            let c = Case { msg: Msg { id: 70000, op: mk_op(ty, res, name.clone(), val.clone(), creds.clone()), controls: Some(ctrls) }, name, val, creds };
            distinct.fetch_add(1, Ordering::Relaxed);
            judge(&rep, &c, &c.msg.encode(), &evals);
        }
    });
    // small messages: every combination of forms over <= 6 nodes
    for ty in TYPES {
        let c = mk_case(ty, 32, 0, 0, 0, 0, 1);
        let t = c.msg.to_tlv();
        let n = t.nodes();
        if n <= 7 {
            // (every combination of the five shortest forms; the longer ones are covered one
            // node at a time and all at once above)
            let cf = &forms[..5];
            let total = cf.len().pow(n as u32);
            for code in 0..total {
                let mut cc = code;
                let choice: Vec<LenForm> = (0..n)
                    .map(|_| {
                        let f = cf[cc % cf.len()];
                        cc /= cf.len();
                        f
                    })
                    .collect();
                judge(&rep, &c, &ber::encode_forms(&t, &mut |k| choice[k]), &evals);
            }
        }
    }
    helpers(&rep, &evals);
    let lane_a = evals.load(Ordering::Relaxed);

    // ---- lane b: through a pending real operation (sequential E1 paths)
    use crate::e1::model::run_path;
    use crate::e1::types::*;
    let mut lane_b = 0u64;
    for (ki, kind) in [OpKind::Bind, OpKind::Compare, OpKind::Delete, OpKind::Extended, OpKind::Add, OpKind::Modify, OpKind::ModDn].iter().enumerate() {
        for rc in [0u32, 5, 6, 10, 32, 49, 122, 4096] {
            for (referral, res_ctrls, binary) in [(false, false, false), (true, false, false), (false, true, true), (true, true, false), (false, false, true)] {
                let mut s = Scenario::new(&format!("C03/through-driver/{:?}/rc{}/binary={}", kind, rc, binary));
                s.clients = vec![ClientSpec { script: vec![Call::Single { kind: kind.clone(), marker: "ć€-m".into(), timeout: None, ctrl: ki % 2 == 0 }], free: 0 }];
                s.plans.insert("ć€-m".into(), Plan { rc, referral, res_ctrls, binary_payload: binary, extra_res_ctrl: binary && res_ctrls, ..Default::default() });
                s.oracles = Oracles { route: true, ..Default::default() };
                s.preset = Some(([0, 126, 254, 65534][ki % 4], vec![]));
                let id = s.preset.as_ref().unwrap().0 as i64 + 1;
                let path = vec![Action::Do(0), Action::PollD(1), Action::Srv(id), Action::PollD(3), Action::PollC(0)];
                let o = run_path(&Arc::new(s.clone()), &path, false);
                lane_b += 1;
                for (k, d) in &o.viol {
                    rep.violation(k, &format!("[{}] {}", s.name, d), json!({"engine":"e1","scenario":s,"path":path}));
                }
                if o.logs[0].len() != 1 {
                    rep.violation("result:through-driver-incomplete", &format!("[{}] the call did not complete", s.name), json!({"engine":"e1","scenario":s,"path":path}));
                }
            }
        }
    }
    // result codes that do not fit the caller's 32 bits, or have no content octets, must not be
    // handed over as some other code: the operation fails (decoding error)
    for (ki, kind) in [OpKind::Bind, OpKind::Compare, OpKind::Delete, OpKind::Extended, OpKind::Add, OpKind::Modify, OpKind::ModDn].iter().enumerate() {
        for (label, rc_octets) in [("empty", vec![]), ("2^32", vec![1u8, 0, 0, 0, 0]), ("2^32+49", vec![1, 0, 0, 0, 49]), ("2^40", vec![1, 0, 0, 0, 0, 0]), ("2^64", vec![1, 0, 0, 0, 0, 0, 0, 0, 0]), ("00 ffffffff", vec![0, 0xff, 0xff, 0xff, 0xff])] {
            let tag = [1u32, 15, 11, 24, 9, 7, 13][ki];
            let m = Msg { id: 1, op: mk_op(tag, Res::new(0, "", ""), None, None, None), controls: None };
            let mut t = m.to_tlv();
            if let ber::Body::Cons(top) = &mut t.body {
                if let ber::Body::Cons(op) = &mut top[1].body {
                    op[0].body = ber::Body::Prim(rc_octets.clone());
                }
            }
            let bytes = ber::encode(&t);
            let mut s = Scenario::new(&format!("C03/through-driver/{:?}/rc-octets-{}", kind, label));
            s.clients = vec![ClientSpec { script: vec![Call::Single { kind: kind.clone(), marker: "m".into(), timeout: None, ctrl: false }], free: 0 }];
            s.plans.insert("m".into(), Plan { silent: true, ..Default::default() });
            s.raw_inject = Some(bytes.clone());
            s.oracles = Oracles::default();
            let mut path = vec![Action::Do(0), Action::PollD(1), Action::Inject, Action::PollD(3)];
            let scn = Arc::new(s.clone());
            let mut o = run_path(&scn, &path, false);
            for _ in 0..6 {
                match o.enabled.iter().find(|a| matches!(a, Action::PollC(_) | Action::PollD(_))).cloned() {
                    Some(a) => {
                        path.push(a);
                        o = run_path(&scn, &path, false);
                    }
                    None => break,
                }
            }
            lane_b += 1;
            let fits = label == "00 ffffffff";
            match o.logs[0].first().map(|x| &x.ret) {
                Some(Ret::Err(_, _)) if !fits => {}
                Some(Ret::Res(r)) | Some(Ret::Exop(r, _, _)) if fits && r.rc == u32::MAX => {}
                other => {
                    rep.violation(
                        "result:out-of-range-rc-accepted",
                        &format!("[{}] the server sent result code octets {:?}; the caller got {:?}", s.name, rc_octets, other),
                        json!({"engine":"e1","scenario":s,"path":path}),
                    );
                }
            }
        }
    }
    // search done through stream + search()
    for rc in [0u32, 4, 10, 32] {
        for chain in [Some(Chain::Direct), Some(Chain::EntriesOnly), None] {
            let mut s = Scenario::new(&format!("C03/through-driver/search/{:?}/rc{}", chain, rc));
            let n_pre = if rc == 4 { 0 } else { 3 };
            let script = match &chain {
                Some(Chain::Direct) => {
                    let mut v = vec![Call::Start { marker: "sm".into(), chain: Chain::Direct, timeout: None, ctrl: false, opts: false, own_paging: false }];
                    for _ in 0..=n_pre {
                        v.push(Call::Next);
                    }
                    v.push(Call::Finish);
                    v
                }
                Some(c) => vec![
                    Call::Start { marker: "sm".into(), chain: c.clone(), timeout: None, ctrl: false, opts: false, own_paging: false },
                    Call::Next,
                    Call::Finish,
                ],
                None => vec![Call::Search { marker: "sm".into(), timeout: None }],
            };
            s.clients = vec![ClientSpec { script, free: 0 }];
            // reference and intermediate messages precede the final result, which may carry its own referral
            let items = if rc == 4 { vec![] } else { vec![ItemKind::R, ItemKind::I, ItemKind::R] };
            let n_items = items.len();
            s.plans.insert("sm".into(), Plan { rc, referral: rc == 10 || rc == 32, res_ctrls: true, items, ..Default::default() });
            s.oracles = Oracles { route: true, stream: true, ..Default::default() };
            let mut path = vec![Action::Do(0), Action::PollD(1), Action::PollC(0)];
            for _ in 0..=n_items {
                path.push(Action::Srv(1));
            }
            match &chain {
                Some(Chain::Direct) => {
                    // the first next() waits for the driver; the others find their item queued; then finish()
                    path.extend([Action::Do(0), Action::PollD(3), Action::PollC(0)]);
                    for _ in 0..n_items {
                        path.push(Action::Do(0));
                    }
                    path.push(Action::Do(0));
                }
                Some(_) => path.extend([Action::Do(0), Action::PollD(3), Action::PollC(0), Action::Do(0)]),
                None => path.extend([Action::PollD(3), Action::PollC(0)]),
            }
            let o = run_path(&Arc::new(s.clone()), &path, false);
            lane_b += 1;
            for (k, d) in &o.viol {
                rep.violation(k, &format!("[{}] {}", s.name, d), json!({"engine":"e1","scenario":s,"path":path}));
            }
        }
    }

    // responses longer than 127 octets through the real Framed and driver, every cut position
    let t_long = crate::e1::explore_all(&rep, crate::e1::scenarios::long_response_bytes("C03"), false);
    let lane_b = lane_b + t_long.transitions;
    let c = cov(vec![
        ("evaluations", json!(lane_a + lane_b)),
        ("distinct_nontrivial", json!(distinct.load(Ordering::Relaxed))),
        ("rule", json!("lane a: every response type x every rc in 0..=122 plus 4096 and 2^31-1 (other fields rotating), and every response type x matched x text x referral x control list (0-2 controls: known/unknown OID x criticality absent/FALSE/TRUE x value absent/empty/bytes); each message encoded minimally, with every single length field in each of the forms 81/82/83/84, with all fields in each form, and (small messages) with every combination; decoded by the crate's codec and result converter; helpers for every rc in 0..=255. lane b (the last scenario as an explicit-state search over byte-level delivery of two responses of 150 and 340 octets): every single-result operation kind (also with an ExtendedResponse value / serverSaslCreds that are not UTF-8, and two result controls) and search completion through a pending real operation over the in-memory transport. distinct_nontrivial = distinct response messages (not counting re-encodings)")),
        ("lane_a_decodes", json!(lane_a)),
        ("lane_b_operations_through_driver", json!(lane_b)),
        ("samples", json!([ber::hex(&mk_case(24, 10, 2, 1, 2, 5, 7).msg.encode())])),
        ("exhaustive", json!(true)),
    ]);
    rep.finish("exploration", c, vec!["responses are built by the independent encoder (vcore::msg)".into()])
}

pub fn replay(v: &serde_json::Value) -> i32 {
    if v["replay"]["engine"] == "e1" {
        return crate::e1::replay(v);
    }
    if let Some(h) = v["replay"]["hex"].as_str() {
        let b = ber::unhex(h);
        println!("reference: {:?}", ber::decode_all(&b).map(|t| Msg::from_tlv(&t, &mut vec![])));
        let r = catch(move || {
            let mut buf = BytesMut::from(&b[..]);
            ldap3::verif::decode(&mut buf).map(|o| o.map(|(id, t, c)| (id, ldap3::verif::result_from(t), c)))
        });
        println!("crate: {:?}", r);
    }
    0
}
