//! C15 — SearchEntry::construct keeps every value and classifies attributes (bounded-exhaustive).

use crate::common::{catch, cov, par_for, Reporter, Tier};
use crate::vcore::ber::{self, LenForm, Tlv, APP};
use ldap3::{ResultEntry, SearchEntry};
use serde_json::json;
use std::sync::atomic::{AtomicU64, Ordering};

fn values() -> Vec<Vec<u8>> {
    // valid: empty, ASCII, 2-byte, U+FFFD (the replacement character itself is valid UTF-8), space-padded;
    // invalid: lone ff, truncated c3, valid byte then stray continuation
    vec![vec![], b"a".to_vec(), "é".as_bytes().to_vec(), "\u{FFFD}".as_bytes().to_vec(), b" a ".to_vec(), vec![0xff], vec![0xc3], vec![0x61, 0x80]]
}

fn value_lists(max: usize) -> Vec<Vec<Vec<u8>>> {
    let vs = values();
    let mut out: Vec<Vec<Vec<u8>>> = vec![vec![]];
    let mut frontier: Vec<Vec<Vec<u8>>> = vec![vec![]];
    for _ in 0..max {
        let mut next = vec![];
        for l in &frontier {
            for v in &vs {
                let mut n = l.clone();
                n.push(v.clone());
                next.push(n);
            }
        }
        out.extend(next.iter().cloned());
        frontier = next;
    }
    out
}

/// values for messages: long ones are abbreviated
fn brief(vs: &[Vec<u8>]) -> String {
    let one = |v: &Vec<u8>| if v.len() <= 16 { format!("{:?}", v) } else { format!("[{} octets: {}..{}]", v.len(), ber::hex(&v[..4]), ber::hex(&v[v.len() - 4..])) };
    format!("[{}]", vs.iter().map(one).collect::<Vec<_>>().join(", "))
}

fn brief_s(vs: &[String]) -> String {
    brief(&vs.iter().map(|s| s.as_bytes().to_vec()).collect::<Vec<_>>())
}

fn entry_tlv(dn: &str, attrs: &[(String, Vec<Vec<u8>>)]) -> Tlv {
    Tlv::cons(
        APP,
        4,
        vec![
            Tlv::octets(dn.as_bytes().to_vec()),
            Tlv::seq(
                attrs
                    .iter()
                    .map(|(n, vs)| Tlv::seq(vec![Tlv::octets(n.as_bytes().to_vec()), Tlv::set(vs.iter().map(|v| Tlv::octets(v.clone())).collect())]))
                    .collect(),
            ),
        ],
    )
}

fn judge(rep: &Reporter, dn: &str, attrs: &[(String, Vec<Vec<u8>>)], form: LenForm, evals: &AtomicU64, mixed: &AtomicU64) {
    evals.fetch_add(1, Ordering::Relaxed);
    let t = entry_tlv(dn, attrs);
    let bytes = ber::encode_forms(&t, &mut |_| form);
    let replay = || json!({"engine":"c15","hex":ber::hex(&bytes)});
    let parsed = match lber::parse::parse_tag(&bytes) {
        Ok((rest, st)) if rest.is_empty() => st,
        other => {
            rep.violation("entry:lber-parse", &format!("lber could not parse the entry {}: {:?}", ber::hex(&bytes), other.map(|x| x.0.len())), replay());
            return;
        }
    };
    let se = match catch(|| SearchEntry::construct(ResultEntry::new(parsed))) {
        Ok(se) => se,
        Err(p) => {
            rep.violation("entry:construct-panic", &format!("construct panicked on {}: {}", ber::hex(&bytes), p), replay());
            return;
        }
    };
    if se.dn != dn {
        rep.violation("entry:dn", &format!("dn {:?} != {:?}", se.dn, dn), replay());
    }
    let mut any_mixed = false;
    for (name, vs) in attrs {
        let all_utf8 = vs.iter().all(|v| std::str::from_utf8(v).is_ok());
        let some_utf8 = vs.iter().any(|v| std::str::from_utf8(v).is_ok());
        if !all_utf8 && some_utf8 {
            any_mixed = true;
        }
        let in_text = se.attrs.get(name);
        let in_bin = se.bin_attrs.get(name);
        let shape = if vs.is_empty() { "no-values" } else if all_utf8 { "all-utf8" } else if some_utf8 { "mixed" } else { "all-binary" };
        match (in_text, in_bin) {
            (Some(_), Some(_)) => {
                rep.violation(&format!("entry:in-both-maps:{}", shape), &format!("attribute {} with values {} is in both maps", name, brief(vs)), replay());
            }
            (None, None) => {
                rep.violation(&format!("entry:in-no-map:{}", shape), &format!("attribute {} with values {} is in neither map", name, brief(vs)), replay());
            }
            (Some(tv), None) => {
                let want: Option<Vec<String>> = vs.iter().map(|v| String::from_utf8(v.clone()).ok()).collect();
                if !all_utf8 {
                    rep.violation(&format!("entry:binary-in-text-map:{}", shape), &format!("attribute {} has non-UTF-8 values {} but is in the text map as {}", name, brief(vs), brief_s(tv)), replay());
                } else if Some(tv.clone()) != want {
                    rep.violation(&format!("entry:text-values:{}", shape), &format!("attribute {}: text values {} != {} (order matters)", name, brief_s(tv), brief(vs)), replay());
                }
            }
            (None, Some(bv)) => {
                if all_utf8 {
                    rep.violation(&format!("entry:text-in-binary-map:{}", shape), &format!("attribute {} has only UTF-8 values {} but is in the binary map", name, brief(vs)), replay());
                } else {
                    let mut a = bv.clone();
                    let mut b = vs.clone();
                    a.sort();
                    b.sort();
                    if a != b {
                        rep.violation(&format!("entry:binary-multiset:{}", shape), &format!("attribute {}: binary values {} are not the multiset {}", name, brief(bv), brief(vs)), replay());
                    }
                }
            }
        }
    }
    if se.attrs.len() + se.bin_attrs.len() != attrs.len() {
        // (attribute names are distinct in this lane)
        rep.violation("entry:attribute-count", &format!("{} + {} map entries for {} attributes", se.attrs.len(), se.bin_attrs.len(), attrs.len()), replay());
    }
    if any_mixed {
        mixed.fetch_add(1, Ordering::Relaxed);
    }
}

pub fn run(tier: Tier) -> i32 {
    let rep = Reporter::new("C15", tier);
    // the bounds that used to be the thorough tier's are cheap enough for every run
    let deep = tier == Tier::Thorough;
    let tier = Tier::Thorough;
    let _ = deep;
    let evals = AtomicU64::new(0);
    let mixed = AtomicU64::new(0);
    let lists = value_lists(3); // 1 + 8 + 64 + 512 = 585 value lists
    let names = ["cn", "jpegPhoto", "objectClass"];
    let nl = lists.len() as u64;
    // 1 attribute: every list; 2 attributes: every pair; 3 attributes: every triple from a stride subset
    let sub: Vec<usize> = (0..lists.len()).step_by(tier.pick(23, 5)).collect();
    let ns = sub.len() as u64;
    let forms = [LenForm::Minimal, LenForm::Long(1), LenForm::Long(2), LenForm::Long(4)];
    for dn in ["", "cn=é", "o=Acme\\ ", " cn=lead,o=x ", "cn=\u{FFFD}"] {
        judge(&rep, dn, &[], LenForm::Minimal, &evals, &mixed);
        par_for(nl, |i| {
            for f in forms {
                judge(&rep, dn, &[(names[0].to_string(), lists[i as usize].clone())], f, &evals, &mixed);
            }
        });
        par_for(nl * nl, |i| {
            let a = (i / nl) as usize;
            let b = (i % nl) as usize;
            judge(&rep, dn, &[(names[0].to_string(), lists[a].clone()), (names[1].to_string(), lists[b].clone())], LenForm::Minimal, &evals, &mixed);
        });
        par_for(ns * ns * ns, |i| {
            let a = sub[(i / (ns * ns)) as usize];
            let b = sub[((i / ns) % ns) as usize];
            let c = sub[(i % ns) as usize];
            judge(
                &rep,
                dn,
                &[(names[0].to_string(), lists[a].clone()), (names[1].to_string(), lists[b].clone()), (names[2].to_string(), lists[c].clone())],
                LenForm::Minimal,
                &evals,
                &mixed,
            );
        });
    }
    // attribute descriptions with options, an OID, mixed case: the name has no say in the classification
    let odd_names = ["userCertificate;binary", "cn;lang-de", "x;BINARY;y-1", "1.2.840.113556.1.4.1", "jpegPhoto;binary;x-a", "OBJECTCLASS", "binary"];
    par_for(nl * odd_names.len() as u64, |i| {
        let n = odd_names[(i / nl) as usize];
        let l = &lists[(i % nl) as usize];
        judge(&rep, "cn=n", &[(n.to_string(), l.clone())], LenForm::Minimal, &evals, &mixed);
        judge(&rep, "cn=n", &[("cn".to_string(), vec![b"x".to_vec()]), (n.to_string(), l.clone()), ("sn".to_string(), vec![vec![0xfe]])], LenForm::Minimal, &evals, &mixed);
    });
    // long values: sizes around every BER length-form boundary, valid UTF-8 (ASCII / two-byte
    // characters) and invalid (one stray octet at the start, in the middle, at the end)
    let sizes = [127usize, 128, 255, 256, 65534, 65535, 65536, 65537, 70001];
    let mut long_vals: Vec<Vec<u8>> = vec![];
    for &n in &sizes {
        long_vals.push(vec![b'a'; n]);
        long_vals.push("é".repeat(n / 2).into_bytes());
        for pos in [0usize, n / 2, n - 1] {
            let mut v = vec![b'a'; n];
            v[pos] = 0xff;
            long_vals.push(v);
        }
    }
    // multi-octet characters at every offset of values a little longer than typical scan
    // windows (8, 16, 32, 64 octets): valid text stays text wherever a character straddles a boundary
    for pre in 0..=70usize {
        for ch in ["é", "€", "𐍈"] {
            for post in [0usize, 1, 5] {
                let mut v = vec![b'a'; pre];
                v.extend_from_slice(ch.as_bytes());
                v.extend(std::iter::repeat(b'b').take(post));
                long_vals.push(v.clone());
                // and the same with the character cut short (invalid)
                v.truncate(pre + ch.len() - 1);
                long_vals.push(v);
            }
        }
    }
    let shorts = values();
    let nlv = long_vals.len() as u64;
    par_for(nlv, |i| {
        let lv = &long_vals[i as usize];
        judge(&rep, "cn=long", &[("cn".to_string(), vec![lv.clone()])], LenForm::Minimal, &evals, &mixed);
        for sv in &shorts {
            judge(&rep, "cn=long", &[("cn".to_string(), vec![lv.clone(), sv.clone()])], LenForm::Minimal, &evals, &mixed);
            judge(&rep, "cn=long", &[("cn".to_string(), vec![sv.clone(), lv.clone()]), ("sn".to_string(), vec![sv.clone()])], LenForm::Minimal, &evals, &mixed);
        }
    });
    // counts: attributes with n values (valid text except for one invalid value at a chosen
    // index, or none), and entries with n attributes, for n up to 300
    {
        let counts: Vec<usize> = (4..=40).chain([57, 58, 59, 60, 63, 64, 65, 66, 100, 127, 128, 129, 255, 256, 257, 300]).collect();
        par_for(counts.len() as u64, |i| {
            let n = counts[i as usize];
            let base: Vec<Vec<u8>> = (0..n).map(|k| format!("value-{}", k).into_bytes()).collect();
            judge(&rep, "cn=wide", &[("member".to_string(), base.clone())], LenForm::Minimal, &evals, &mixed);
            for bad in [0usize, 1, n / 2, n.saturating_sub(2), n - 1] {
                let mut v = base.clone();
                v[bad] = vec![0xff, 0xfe];
                judge(&rep, "cn=wide", &[("member".to_string(), v.clone())], LenForm::Minimal, &evals, &mixed);
                judge(&rep, "cn=wide", &[("cn".to_string(), vec![b"x".to_vec()]), ("member".to_string(), v)], LenForm::Minimal, &evals, &mixed);
            }
            // n attributes, every third one binary, every fifth one without values
            let attrs: Vec<(String, Vec<Vec<u8>>)> = (0..n)
                .map(|k| (format!("attr{}", k), if k % 5 == 4 { vec![] } else if k % 3 == 2 { vec![vec![0x80, k as u8]] } else { vec![format!("t{}", k).into_bytes(), b"u".to_vec()] }))
                .collect();
            judge(&rep, "cn=many", &attrs, LenForm::Minimal, &evals, &mixed);
        });
        // values that begin with characters a "clean-up" might strip or special-case: byte order
        // mark, zero-width space, NUL, newline, non-breaking space - as text and next to a binary value
        for lead in ["\u{feff}", "\u{feff}\u{feff}", "\u{200b}", "\0", "\n", "\r\n", "\u{a0}", "\t", "\u{fffe}", "\u{1}"] {
            for tail in ["", "x", "é"] {
                let v = format!("{}{}", lead, tail).into_bytes();
                judge(&rep, "cn=lead", &[("cn".to_string(), vec![v.clone()])], LenForm::Minimal, &evals, &mixed);
                judge(&rep, "cn=lead", &[("cn".to_string(), vec![v.clone(), vec![0xff]])], LenForm::Minimal, &evals, &mixed);
                let mut w = format!("{}{}", tail, lead).into_bytes();
                w.extend_from_slice(b"");
                judge(&rep, "cn=trail", &[("cn".to_string(), vec![w])], LenForm::Minimal, &evals, &mixed);
            }
        }
    }
    if deep {
        // value lists of length 4 (4096 more) as the only attribute and next to a binary one
        let l4: Vec<Vec<Vec<u8>>> = value_lists(4).into_iter().filter(|l| l.len() == 4).collect();
        par_for(l4.len() as u64, |i| {
            for f in forms {
                judge(&rep, "cn=four", &[(names[0].to_string(), l4[i as usize].clone())], f, &evals, &mixed);
            }
            judge(&rep, "cn=four", &[(names[1].to_string(), vec![vec![0xff]]), (names[0].to_string(), l4[i as usize].clone()), (names[2].to_string(), vec![])], LenForm::Minimal, &evals, &mixed);
        });
    }
    let ev = evals.load(Ordering::Relaxed);
    let c = cov(vec![
        ("evaluations", json!(ev)),
        ("distinct_nontrivial", json!(mixed.load(Ordering::Relaxed))),
        ("rule", json!("every entry with 0-2 attributes (and a stride subset with 3) whose value lists are all sequences of length 0..=3 over {\"\", a, é, ff, c3, 61 80}, DN in {\"\", cn=é}; single-attribute entries additionally in 4 length forms; every value list under 7 attribute descriptions with options / OID / upper case (alone and between two other attributes); values of 127..70001 octets around every length-form boundary, 2-/3-/4-octet characters (whole and cut short) at every offset 0..=70, valid and invalid UTF-8, alone and next to every short value; distinct by construction; non-trivial = at least one attribute mixes valid and invalid UTF-8 values")),
        ("value_lists", json!(nl)),
        ("samples", json!([ber::hex(&ber::encode(&entry_tlv("cn=é", &[("cn".into(), vec![vec![0xff], b"a".to_vec()])])))])),
        ("exhaustive", json!(true)),
    ]);
    rep.finish("exploration", c, vec!["entries are built by the independent encoder (vcore::ber) and parsed by lber before construct()".into()])
}

pub fn replay(v: &serde_json::Value) -> i32 {
    let b = ber::unhex(v["replay"]["hex"].as_str().unwrap_or(""));
    println!("entry: {:?}", ber::decode_all(&b));
    if let Ok((_, st)) = lber::parse::parse_tag(&b) {
        println!("construct: {:?}", catch(|| SearchEntry::construct(ResultEntry::new(st))));
    }
    0
}
