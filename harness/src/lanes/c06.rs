//! C06 — message framing does not depend on how the byte stream is segmented.
//! Lane a: the real decoder (one codec instance per stream, as on a connection) over every
//! partition of short streams and every 3-chunk partition of longer ones.
//! Lane b: the real Framed + driver over the in-memory transport (E1 byte-level scenarios).

use crate::common::{catch, cov, par_for, Reporter, Tier};
use crate::vcore::ber;
use crate::vcore::msg::{Ctl, Msg, Op, Res};
use bytes::BytesMut;
use serde_json::json;
use std::sync::atomic::{AtomicU64, Ordering};
use std::sync::Arc;

fn msg_pool() -> Vec<(String, Vec<u8>)> {
    let res = |m: &str| Res::new(0, "", m);
    let mut v: Vec<(String, Msg)> = vec![
        ("min14".into(), Msg { id: 1, op: Op::DelResp(Res::new(0, "", "")), controls: None }),
        ("bind14".into(), Msg { id: 2, op: Op::BindResp(Res::new(49, "", "x"), None), controls: None }),
        (
            "entry".into(),
            Msg { id: 3, op: Op::SearchEntry { dn: b"cn=a".to_vec(), attrs: vec![(b"cn".to_vec(), vec![b"a".to_vec(), b"b".to_vec()])] }, controls: None },
        ),
        (
            "ctrl".into(),
            Msg { id: 300, op: Op::SearchDone(res("done")), controls: Some(vec![Ctl { oid: b"1.2.3".to_vec(), crit: Some(true), val: Some(vec![1, 2, 3]) }]) },
        ),
        ("text130".into(), Msg { id: 4, op: Op::ModifyResp(res(&"t".repeat(130))), controls: None }),
        ("text300".into(), Msg { id: 70000, op: Op::ExtResp(res(&"u".repeat(300)), Some(b"1.2".to_vec()), Some(vec![0; 5])), controls: None }),
        ("ref".into(), Msg { id: 5, op: Op::SearchRef(vec![b"ldap://x".to_vec()]), controls: None }),
        // the shortest messages there are: an IntermediateResponse without name and value (7 octets),
        // an entry with an empty DN and no attributes (11 octets)
        ("interm7".into(), Msg { id: 7, op: Op::Intermediate { name: None, val: None }, controls: None }),
        ("entry11".into(), Msg { id: 8, op: Op::SearchEntry { dn: vec![], attrs: vec![] }, controls: None }),
        // unsolicited notification (message ID 0)
        ("notice0".into(), Msg { id: 0, op: Op::ExtResp(Res::new(52, "", "bye"), Some(b"1.3.6.1.4.1.1466.20036".to_vec()), None), controls: None }),
    ];
    let mut out: Vec<(String, Vec<u8>)> = v.drain(..).map(|(n, m)| (n, m.encode())).collect();
    // non-minimal length forms of the minimal message
    let m = Msg { id: 6, op: Op::AddResp(Res::new(0, "", "")), controls: None };
    out.push(("nonmin".into(), ber::encode_forms(&m.to_tlv(), &mut |k| if k % 2 == 0 { ber::LenForm::Long(2) } else { ber::LenForm::Long(1) })));
    // ... and with length fields of 8, 10 and 16 octets
    out.push(("nonmin10".into(), ber::encode_forms(&m.to_tlv(), &mut |k| [ber::LenForm::Long(10), ber::LenForm::Long(8), ber::LenForm::Long(16)][k % 3])));
    out
}

fn huge_msg() -> Vec<u8> {
    Msg { id: 10, op: Op::SearchEntry { dn: b"cn=huge".to_vec(), attrs: vec![(b"jpegPhoto".to_vec(), vec![vec![0x5a; 70_000]])] }, controls: None }.encode()
}

fn big_msg() -> Vec<u8> {
    Msg { id: 9, op: Op::SearchEntry { dn: b"cn=big".to_vec(), attrs: vec![(b"jpegPhoto".to_vec(), vec![vec![0xa5; 9000]])] }, controls: None }.encode()
}

/// Feed `stream` to one real codec in the given chunks; after every chunk call decode until it
/// returns None. Returns, per chunk, the frames surfaced (as (id, canonical bytes)) and the
/// buffer length left; Err on decoder error / panic.
fn run_chunks(stream: &[u8], cuts: &[usize]) -> Result<Vec<(Vec<(i32, Vec<u8>)>, usize)>, String> {
    let stream = stream.to_vec();
    let cuts = cuts.to_vec();
    catch(move || {
        let mut codec = ldap3::verif::Codec::new();
        let mut buf = BytesMut::new();
        let mut out = vec![];
        let mut pos = 0;
        for &c in cuts.iter().chain(std::iter::once(&stream.len())) {
            buf.extend_from_slice(&stream[pos..c]);
            pos = c;
            let mut frames = vec![];
            loop {
                match codec.decode(&mut buf) {
                    Ok(Some((id, op, ctrls))) => {
                        let mut t = vec![];
                        t.extend_from_slice(&ber::encode(&ber::from_lber(&op)));
                        for c in &ctrls {
                            t.extend_from_slice(c.1.ctype.as_bytes());
                            t.push(c.1.crit as u8);
                            t.extend_from_slice(c.1.val.as_deref().unwrap_or(&[0xee]));
                        }
                        frames.push((id, t));
                    }
                    Ok(None) => break,
                    Err(e) => return Err(format!("decoder error: {}", e)),
                }
            }
            out.push((frames, buf.len()));
        }
        Ok(out)
    })
    .unwrap_or_else(|p| Err(format!("panic: {}", p)))
}

struct Seq {
    name: String,
    bytes: Vec<u8>,
    /// end offsets of the messages
    bounds: Vec<usize>,
    /// what a single big read yields
    whole: Vec<(i32, Vec<u8>)>,
}

fn judge(rep: &Reporter, s: &Seq, cuts: &[usize], evals: &AtomicU64) {
    evals.fetch_add(1, Ordering::Relaxed);
    let replay = || json!({"engine":"c06","stream_hex":ber::hex(&s.bytes),"cuts":cuts,"sequence":s.name});
    let r = match run_chunks(&s.bytes, cuts) {
        Ok(r) => r,
        Err(e) => {
            rep.violation("framing:error-on-valid-stream", &format!("[{}] cuts {:?}: {}", s.name, cuts, e), replay());
            return;
        }
    };
    let mut seen = 0usize;
    let ends: Vec<usize> = cuts.iter().copied().chain(std::iter::once(s.bytes.len())).collect();
    for (k, (frames, left)) in r.iter().enumerate() {
        let n = ends[k];
        let complete = s.bounds.iter().filter(|b| **b <= n).count();
        let last_bound = s.bounds.iter().copied().filter(|b| *b <= n).max().unwrap_or(0);
        let want = &s.whole[seen..complete];
        if frames.as_slice() != want {
            let kind = if frames.len() > want.len() { "surfaced-early-or-extra" } else if frames.len() < want.len() { "held-back" } else { "different-content" };
            rep.violation(
                &format!("framing:{}", kind),
                &format!("[{}] cuts {:?}: after {} bytes the decoder surfaced {} frame(s) {:?}, expected {} (messages ending at {:?})", s.name, cuts, n, frames.len(), frames.iter().map(|f| f.0).collect::<Vec<_>>(), want.len(), s.bounds),
                replay(),
            );
            return;
        }
        if *left != n - last_bound {
            rep.violation(
                "framing:buffer-consumption",
                &format!("[{}] cuts {:?}: after {} bytes {} bytes are left in the buffer, expected {}", s.name, cuts, n, left, n - last_bound),
                replay(),
            );
            return;
        }
        seen = complete;
    }
}

fn mk_seq(parts: &[&(String, Vec<u8>)]) -> Seq {
    let mut bytes = vec![];
    let mut bounds = vec![];
    for p in parts {
        bytes.extend_from_slice(&p.1);
        bounds.push(bytes.len());
    }
    // what a single big read must yield, computed with the independent decoder
    let mut whole = vec![];
    for p in parts {
        let t = ber::decode_all(&p.1).expect("pool message is BER");
        let m = Msg::from_tlv(&t, &mut vec![]).expect("pool message is an LDAPMessage");
        let mut c = ber::encode(&crate::vcore::msg::op_tlv(&m.op));
        for ctl in m.controls.clone().unwrap_or_default() {
            c.extend_from_slice(&ctl.oid);
            c.push(ctl.crit.unwrap_or(false) as u8);
            c.extend_from_slice(ctl.val.as_deref().unwrap_or(&[0xee]));
        }
        whole.push((m.id as i32, c));
    }
    Seq { name: parts.iter().map(|p| p.0.clone()).collect::<Vec<_>>().join("+"), bytes, bounds, whole }
}

pub fn run(tier: Tier) -> i32 {
    let rep = Arc::new(Reporter::new("C06", tier));
    let evals = AtomicU64::new(0);
    let pool = msg_pool();
    let mut seqs: Vec<Seq> = vec![];
    for a in &pool {
        seqs.push(mk_seq(&[a]));
        for b in &pool {
            seqs.push(mk_seq(&[a, b]));
        }
    }
    for (i, a) in pool.iter().enumerate() {
        let b = &pool[(i + 1) % pool.len()];
        let c = &pool[(i + 3) % pool.len()];
        seqs.push(mk_seq(&[a, b, c]));
    }
    let nseq = seqs.len();
    let all_partitions = AtomicU64::new(0);
    let three_chunk = AtomicU64::new(0);
    let max_full = tier.pick(18usize, 23usize);
    par_for(seqs.len() as u64, |i| {
        let s = &seqs[i as usize];
        let l = s.bytes.len();
        // whole, byte-at-a-time
        judge(&rep, s, &[], &evals);
        judge(&rep, s, &(1..l).collect::<Vec<_>>(), &evals);
        if l <= max_full {
            // every partition
            for mask in 0u32..(1u32 << (l - 1)) {
                let cuts: Vec<usize> = (1..l).filter(|k| mask & (1 << (k - 1)) != 0).collect();
                judge(&rep, s, &cuts, &evals);
                all_partitions.fetch_add(1, Ordering::Relaxed);
            }
        }
        // every partition into at most three chunks
        let step = if l > 200 { tier.pick(7, 3) } else { 1 };
        for a in (1..l).step_by(step) {
            judge(&rep, s, &[a], &evals);
            for b in (a + 1..l).step_by(step) {
                judge(&rep, s, &[a, b], &evals);
                three_chunk.fetch_add(1, Ordering::Relaxed);
            }
            // cuts next to every message boundary
            for bd in &s.bounds {
                for d in [-2i64, -1, 1, 2] {
                    let b = *bd as i64 + d;
                    if b > a as i64 && (b as usize) < l {
                        judge(&rep, s, &[a, b as usize], &evals);
                    }
                }
            }
        }
    });
    // beyond the 8 KiB read buffer
    let big = big_msg();
    let small = &pool[0];
    let bigname = ("big9000".to_string(), big.clone());
    let hugename = ("huge70000".to_string(), huge_msg());
    let entry = &pool[2];
    let mut bigs = vec![
        mk_seq(&[&bigname]),
        mk_seq(&[small, &bigname, small]),
        mk_seq(&[&bigname, &bigname]),
        mk_seq(&[&hugename, entry, small]),
        mk_seq(&[small, &hugename, &bigname]),
    ];
    // sizes between the classic boundaries, and long runs of messages in one stream
    let mid: Vec<(String, Vec<u8>)> = [1000usize, 4090, 5000, 8180, 16300, 20000, 33000]
        .iter()
        .map(|n| (format!("mid{}", n), Msg { id: 11, op: Op::SearchEntry { dn: b"cn=mid".to_vec(), attrs: vec![(b"description".to_vec(), vec![vec![0x6d; *n]])] }, controls: None }.encode()))
        .collect();
    for m in &mid {
        bigs.push(mk_seq(&[small, m, entry]));
        bigs.push(mk_seq(&[m, m]));
    }
    // a wide message: one attribute with 70 values plus 70 attributes
    let wide = (
        "wide70".to_string(),
        Msg {
            id: 12,
            op: Op::SearchEntry {
                dn: b"cn=group".to_vec(),
                attrs: std::iter::once((b"member".to_vec(), (0..70).map(|k| format!("uid=u{}", k).into_bytes()).collect::<Vec<_>>()))
                    .chain((0..70).map(|k| (format!("a{}", k).into_bytes(), vec![b"v".to_vec()])))
                    .collect(),
            },
            controls: None,
        }
        .encode(),
    );
    bigs.push(mk_seq(&[small, &wide, entry]));
    bigs.push(mk_seq(&[&wide]));
    for n in [5usize, 9, 17, 33, 65, 129, 300] {
        let run: Vec<&(String, Vec<u8>)> = (0..n).map(|k| &pool[k % pool.len()]).collect();
        bigs.push(mk_seq(&run));
    }
    for s in &bigs {
        let l = s.bytes.len();
        judge(&rep, s, &[], &evals);
        let mut marks: Vec<usize> = vec![1, 2, 3, 8191, 8192, 8193, 65535, 65536, 65537, l - 2, l - 1];
        for b in &s.bounds {
            for d in [-2i64, -1, 0, 1, 2] {
                marks.push((*b as i64 + d) as usize);
            }
        }
        marks.retain(|m| *m > 0 && *m < l);
        marks.sort();
        marks.dedup();
        // every pair of marks for streams of a few messages; for long runs every single mark,
        // a cut at every message boundary at once, and fixed-size reads
        let pairs = s.bounds.len() <= 4;
        for (i, a) in marks.iter().enumerate() {
            judge(&rep, s, &[*a], &evals);
            if pairs {
                for b in &marks[i + 1..] {
                    judge(&rep, s, &[*a, *b], &evals);
                }
            }
        }
        if !pairs {
            let at_bounds: Vec<usize> = s.bounds.iter().copied().filter(|b| *b > 0 && *b < l).collect();
            judge(&rep, s, &at_bounds, &evals);
            judge(&rep, s, &at_bounds.iter().map(|b| b - 1).filter(|b| *b > 0).collect::<Vec<_>>(), &evals);
            judge(&rep, s, &at_bounds.iter().map(|b| b + 1).filter(|b| *b < l).collect::<Vec<_>>(), &evals);
            for chunk in [7usize, 64, 100, 4096] {
                judge(&rep, s, &(1..l).filter(|k| k % chunk == 0).collect::<Vec<_>>(), &evals);
            }
            if l <= 20_000 {
                judge(&rep, s, &(1..l).collect::<Vec<_>>(), &evals);
            }
        }
        // 1 KiB reads, then byte-at-a-time over the first 40 bytes
        judge(&rep, s, &(1..l).filter(|k| k % 1024 == 0).collect::<Vec<_>>(), &evals);
        judge(&rep, s, &(1..40.min(l)).collect::<Vec<_>>(), &evals);
    }
    let lane_a = evals.load(Ordering::Relaxed);

    // ---- lane b: through the real Framed + driver (byte-level E1 scenarios)
    use crate::e1::types::*;
    let mut scns = vec![];
    let mk = |name: &str, items: Vec<ItemKind>, steps: Vec<NetStep>| {
        let mut s = Scenario::new(name);
        s.clients = vec![
            ClientSpec { script: vec![Call::Single { kind: OpKind::Bind, marker: "a".into(), timeout: None, ctrl: false }], free: 0 },
            ClientSpec { script: vec![Call::Search { marker: "s".into(), timeout: None }], free: 0 },
        ];
        s.plans.insert("s".into(), Plan { items, res_ctrls: true, item_ctrls: true, ..Default::default() });
        s.byte_mode = true;
        s.net_steps = steps;
        s.select_starts = vec![3];
        s.oracles = Oracles { route: true, ..Default::default() };
        s
    };
    scns.push(mk("C06/driver/bind+search[E]/one|all", vec![ItemKind::E], vec![NetStep::One, NetStep::All]));
    scns.push(mk("C06/driver/bind+search[R]/one|frame", vec![ItemKind::R], vec![NetStep::One, NetStep::Frame]));
    {
        // the only search in flight is abandoned from another handle while one of its frames has
        // arrived in part; the rest of that frame must not be taken for the start of a new one
        let mut s = Scenario::new("C06/driver/abandon-with-half-a-frame-buffered");
        s.clients = vec![
            ClientSpec { script: vec![Call::Start { marker: "s".into(), chain: Chain::Direct, timeout: None, ctrl: false, opts: false, own_paging: false }, Call::Next], free: 0 },
            ClientSpec {
                script: vec![Call::Abandon(AbTarget::Marker("s".into())), Call::Single { kind: OpKind::Bind, marker: "after".into(), timeout: None, ctrl: false }],
                free: 0,
            },
        ];
        s.plans.insert("s".into(), Plan { items: vec![ItemKind::E, ItemKind::E], ..Default::default() });
        s.byte_mode = true;
        s.net_steps = vec![NetStep::One, NetStep::All];
        s.answer_after_abandon = true;
        s.select_starts = vec![3];
        s.oracles = Oracles { route: true, ..Default::default() };
        scns.push(s);
    }
    if tier == Tier::Thorough {
        scns.push(mk("C06/driver/bind+search[E,R]/one|frame", vec![ItemKind::E, ItemKind::R], vec![NetStep::One, NetStep::Frame]));
        scns.push(mk("C06/driver/bind+search[E,I,E]/one|frame|all", vec![ItemKind::E, ItemKind::I, ItemKind::E], vec![NetStep::One, NetStep::Frame, NetStep::All]));
    }
    let t = crate::e1::explore_all(&rep, scns, false);

    let c = cov(vec![
        ("states", json!(t.states)),
        ("transitions", json!(t.transitions)),
        ("traces_validated_against_impl", json!(t.transitions + lane_a)),
        ("evaluations", json!(lane_a + t.transitions)),
        ("distinct_nontrivial", json!(lane_a)),
        ("rule", json!("lane a: message sequences (1-3 messages from a pool: 7-byte intermediate response, 11-byte entry, 14-byte results, entry, with controls, 130-byte, 300-byte, reference, non-minimal length forms, 9000-byte) fed to one real codec instance per stream: whole, byte-at-a-time, every partition for streams up to the stated length, every partition into <= 3 chunks, cuts around every message boundary and the 8 KiB read-buffer boundary; each (sequence, partition) is distinct. lane b: explicit-state search over byte-level delivery (Net(1)/Net(frame)/Net(all)) through the real Framed and driver")),
        ("sequences", json!(nseq + bigs.len())),
        ("full_partition_enumerations", json!(all_partitions.load(Ordering::Relaxed))),
        ("full_partition_max_stream_len", json!(max_full)),
        ("three_chunk_partitions", json!(three_chunk.load(Ordering::Relaxed))),
        ("lane_a_partitions", json!(lane_a)),
        ("driver_lane_scenarios", json!(t.per_scenario)),
        ("samples", json!([{"sequence": seqs[9].name, "stream_hex": ber::hex(&seqs[9].bytes), "cuts": [3, 17]}, t.samples.first()])),
        ("exhaustive", json!(true)),
    ]);
    rep.finish("model_checking", c, vec!["messages are encoded by the independent encoder; tokio_util::codec::Framed is trusted to call decode() after every read".into()])
}

pub fn replay(v: &serde_json::Value) -> i32 {
    let b = ber::unhex(v["replay"]["stream_hex"].as_str().unwrap_or(""));
    let cuts: Vec<usize> = v["replay"]["cuts"].as_array().map(|a| a.iter().map(|x| x.as_u64().unwrap() as usize).collect()).unwrap_or_default();
    println!("stream ({} bytes), cuts {:?}", b.len(), cuts);
    match run_chunks(&b, &cuts) {
        Ok(r) => {
            for (k, (frames, left)) in r.iter().enumerate() {
                println!("  after chunk {}: frames {:?}, {} bytes left in buffer", k, frames.iter().map(|f| f.0).collect::<Vec<_>>(), left);
            }
        }
        Err(e) => println!("  {}", e),
    }
    println!("whole: {:?}", run_chunks(&b, &[]).map(|r| r[0].0.iter().map(|f| f.0).collect::<Vec<_>>()));
    0
}
