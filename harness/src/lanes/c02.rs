//! C02 — each request on the wire is exactly the RFC 4511 PDU asked for; modifiers are one-shot.

use super::util::{Behave, Rig};
use crate::common::{catch, cov, par_for, Reporter, Tier};
use crate::vcore::ber;
use crate::vcore::filter::Filter;
use crate::vcore::msg::{Auth, Ctl, Msg, Op};
use ldap3::adapters::EntriesOnly;
use ldap3::controls::RawControl;
use ldap3::exop::Exop;
use ldap3::{DerefAliases, LdapError, Mod, Scope, SearchOptions};
use serde_json::json;
use std::collections::HashSet;
use std::sync::atomic::{AtomicU64, Ordering};
use std::time::Duration;

#[derive(Clone, Debug)]
pub enum Req {
    Bind(String, String),
    SaslExternal,
    Search { base: String, scope: u8, deref: u8, typesonly: bool, size: i32, time: i32, filter: usize, attrs: Vec<String>, with_opts: bool },
    Add(String, Vec<(Vec<u8>, Vec<Vec<u8>>)>),
    Compare(String, String, Vec<u8>),
    Delete(String),
    Modify(String, Vec<(u8, Vec<u8>, Vec<Vec<u8>>)>),
    ModDn(String, String, bool, Option<String>),
    Extended(String, Option<Vec<u8>>),
    /// the typed extended requests: Password Modify (user, old, new; at least one present), Who Am I
    PassMod(Option<String>, Option<String>, Option<String>),
    WhoAmI,
    Abandon(i32),
    Unbind,
}

const SMALL_FILTERS: [&str; 4] = ["(objectClass=*)", "(&(cn=a*b)(!(sn=\\2a)))", "uid:dn:2.5.13.5:=x", "(|(a>=1)(b<=2)(c~=3))"];

/// the four small filters plus big ones: 40 components side by side, negations nested 20 and 60
/// deep, a substring filter with 20 `any` parts, a 5000-octet assertion value
fn filter_pool() -> &'static Vec<String> {
    static POOL: std::sync::OnceLock<Vec<String>> = std::sync::OnceLock::new();
    POOL.get_or_init(|| {
        let mut v: Vec<String> = SMALL_FILTERS.iter().map(|s| s.to_string()).collect();
        v.push(format!("(&{})", (0..40).map(|k| format!("(a{}=v{})", k, k)).collect::<String>()));
        v.push(format!("(|{})", (0..9).map(|k| format!("(&(a{}=*)(b{}>=1))", k, k)).collect::<String>()));
        for d in [20usize, 60] {
            v.push(format!("{}(cn=x){}", "(!".repeat(d), ")".repeat(d)));
        }
        v.push(format!("(cn=i{}*f)", (0..20).map(|k| format!("*a{}", k)).collect::<String>()));
        v.push(format!("(description={})", "q".repeat(5000)));
        v
    })
}

fn filter_model(i: usize) -> Filter {
    crate::vcore::filter::parse_str(filter_pool()[i].as_bytes(), false).expect("filter model")
}

fn dns() -> Vec<String> {
    vec!["".into(), "cn=a".into(), format!("cn={}", "x".repeat(127)), format!("ou={}", "y".repeat(297)), "cn=ć€𐍈".into()]
}

fn bvals() -> Vec<Vec<u8>> {
    vec![vec![], vec![0], vec![0xff], vec![0x80, 0x7f]]
}

fn ctl_lists() -> Vec<Vec<(String, bool, Option<Vec<u8>>)>> {
    let mut singles = vec![];
    for crit in [false, true] {
        for val in [None, Some(vec![]), Some(vec![0x30, 0x03, 0x02, 0x01, 0x05])] {
            singles.push(("1.2.3".to_string(), crit, val));
        }
    }
    let mut out = vec![vec![]];
    for a in &singles {
        out.push(vec![a.clone()]);
    }
    for a in &singles {
        for b in &singles {
            let mut b = b.clone();
            b.0 = "2.16.840.1.113730.3.4.2".into();
            out.push(vec![a.clone(), b]);
        }
    }
    out
}

fn model_msg(id: i64, r: &Req, ctl: &Option<Vec<(String, bool, Option<Vec<u8>>)>>) -> Msg {
    let b = |s: &str| s.as_bytes().to_vec();
    let op = match r {
        Req::Bind(dn, pw) => Op::BindReq { version: 3, name: b(dn), auth: Auth::Simple(b(pw)) },
        Req::SaslExternal => Op::BindReq { version: 3, name: vec![], auth: Auth::Sasl { mech: b("EXTERNAL"), creds: Some(vec![]) } },
        Req::Search { base, scope, deref, typesonly, size, time, filter, attrs, with_opts } => Op::SearchReq {
            base: b(base),
            scope: *scope as i64,
            deref: if *with_opts { *deref as i64 } else { 0 },
            sizelimit: if *with_opts { *size as i64 } else { 0 },
            timelimit: if *with_opts { *time as i64 } else { 0 },
            typesonly: *with_opts && *typesonly,
            filter: filter_model(*filter),
            attrs: attrs.iter().map(|a| b(a)).collect(),
        },
        Req::Add(dn, attrs) => Op::AddReq {
            dn: b(dn),
            attrs: attrs
                .iter()
                .map(|(n, vs)| {
                    let mut vs = vs.clone();
                    vs.sort();
                    (n.clone(), vs)
                })
                .collect(),
        },
        Req::Compare(dn, a, v) => Op::CompareReq { dn: b(dn), attr: b(a), val: v.clone() },
        Req::Delete(dn) => Op::DelReq(b(dn)),
        Req::Modify(dn, mods) => Op::ModifyReq {
            dn: b(dn),
            changes: mods
                .iter()
                .map(|(op, n, vs)| {
                    let mut vs = vs.clone();
                    vs.sort();
                    (*op as i64, n.clone(), vs)
                })
                .collect(),
        },
        Req::ModDn(dn, rdn, del, sup) => Op::ModDnReq { dn: b(dn), rdn: b(rdn), delold: *del, newsup: sup.as_ref().map(|s| b(s)) },
        Req::Extended(n, v) => Op::ExtReq { name: b(n), val: v.clone() },
        Req::PassMod(u, o, n) => {
            // RFC 3062: SEQUENCE { [0] userIdentity, [1] oldPasswd, [2] newPasswd }, each optional
            let mut v = vec![];
            for (tag, f) in [(0u32, u), (1, o), (2, n)] {
                if let Some(x) = f {
                    v.push(ber::Tlv::prim(ber::CTX, tag, x.as_bytes().to_vec()));
                }
            }
            Op::ExtReq { name: b"1.3.6.1.4.1.4203.1.11.1".to_vec(), val: Some(ber::encode(&ber::Tlv::seq(v))) }
        }
        Req::WhoAmI => Op::ExtReq { name: b"1.3.6.1.4.1.4203.1.11.3".to_vec(), val: None },
        Req::Abandon(i) => Op::AbandonReq(*i as i64),
        Req::Unbind => Op::UnbindReq,
    };
    Msg {
        id,
        op,
        controls: ctl.as_ref().map(|cs| cs.iter().map(|(o, c, v)| Ctl { oid: b(o), crit: if *c { Some(true) } else { None }, val: v.clone() }).collect()),
    }
}

fn hset(vs: &[Vec<u8>]) -> HashSet<Vec<u8>> {
    vs.iter().cloned().collect()
}

/// perform the request on the real handle; returns whether the call itself reported an error
async fn perform(ldap: &mut ldap3::Ldap, r: &Req) -> Result<(), LdapError> {
    match r {
        Req::Bind(dn, pw) => ldap.simple_bind(dn, pw).await.map(|_| ()),
        Req::SaslExternal => ldap.sasl_external_bind().await.map(|_| ()),
        Req::Search { base, scope, deref, typesonly, size, time, filter, attrs, with_opts } => {
            if *with_opts {
                let d = [DerefAliases::Never, DerefAliases::Searching, DerefAliases::Finding, DerefAliases::Always][*deref as usize];
                ldap.with_search_options(SearchOptions::new().deref(d).typesonly(*typesonly).sizelimit(*size).timelimit(*time));
            }
            let sc = [Scope::Base, Scope::OneLevel, Scope::Subtree][*scope as usize];
            ldap.search(base, sc, filter_pool()[*filter].as_str(), attrs.clone()).await.map(|_| ())
        }
        Req::Add(dn, attrs) => ldap.add(dn, attrs.iter().map(|(n, vs)| (n.clone(), hset(vs))).collect()).await.map(|_| ()),
        Req::Compare(dn, a, v) => ldap.compare(dn, a, v).await.map(|_| ()),
        Req::Delete(dn) => ldap.delete(dn).await.map(|_| ()),
        Req::Modify(dn, mods) => {
            let ms: Vec<Mod<Vec<u8>>> = mods
                .iter()
                .map(|(op, n, vs)| match op {
                    0 => Mod::Add(n.clone(), hset(vs)),
                    1 => Mod::Delete(n.clone(), hset(vs)),
                    2 => Mod::Replace(n.clone(), hset(vs)),
                    _ => Mod::Increment(n.clone(), vs[0].clone()),
                })
                .collect();
            ldap.modify(dn, ms).await.map(|_| ())
        }
        Req::ModDn(dn, rdn, del, sup) => ldap.modifydn(dn, rdn, *del, sup.as_deref()).await.map(|_| ()),
        Req::Extended(n, v) => ldap.extended(Exop { name: Some(n.clone()), val: v.clone() }).await.map(|_| ()),
        Req::PassMod(u, o, n) => ldap.extended(ldap3::exop::PasswordModify { user_id: u.as_deref(), old_pass: o.as_deref(), new_pass: n.as_deref() }).await.map(|_| ()),
        Req::WhoAmI => ldap.extended(ldap3::exop::WhoAmI).await.map(|_| ()),
        Req::Abandon(i) => ldap.abandon(*i).await,
        Req::Unbind => ldap.unbind().await,
    }
}

fn raw_ctl(c: &(String, bool, Option<Vec<u8>>)) -> RawControl {
    RawControl { ctype: c.0.clone(), crit: c.1, val: c.2.clone() }
}

/// the call should be refused locally (nothing on the wire)
fn refused_locally(r: &Req) -> bool {
    match r {
        Req::Add(_, attrs) => attrs.iter().any(|(_, vs)| vs.is_empty()),
        Req::Modify(_, mods) => mods.iter().any(|(op, _, vs)| *op == 0 && vs.is_empty()),
        _ => false,
    }
}

fn judge_one(rep: &Reporter, r: &Req, ctl: &Option<Vec<(String, bool, Option<Vec<u8>>)>>, preset_last: i32, evals: &AtomicU64) {
    evals.fetch_add(1, Ordering::Relaxed);
    let replay = || json!({"engine":"c02","request":format!("{:?}", r),"controls":format!("{:?}", ctl),"preset_last":preset_last});
    let r2 = r.clone();
    let ctl2 = ctl.clone();
    let out = catch(move || {
        let mut rig = Rig::new(|_| (Behave::Rc(0), 0));
        rig.ldap.verif_set_msgmap(preset_last, &[]);
        rig.spawn_driver();
        let mut ldap = rig.ldap.clone();
        let res = rig.rt.block_on(async {
            if let Some(cs) = &ctl2 {
                ldap.with_controls(cs.iter().map(raw_ctl).collect::<Vec<_>>());
            }
            match tokio::time::timeout(Duration::from_secs(3600), perform(&mut ldap, &r2)).await {
                Ok(r) => r.map_err(|e| e.to_string()),
                Err(_) => Err("no answer: the scripted server could not read the request".to_string()),
            }
        });
        let leftover = (ldap.controls.is_some(), ldap.timeout.is_some(), ldap.search_opts.is_some());
        let notes = rig.log.lock().unwrap().notes.clone();
        let wire = rig.wire();
        (res, wire, notes, leftover)
    });
    let (res, wire, notes, leftover) = match out {
        Ok(x) => x,
        Err(p) => {
            rep.violation("request:panic", &format!("{:?} panicked: {}", r, p), replay());
            return;
        }
    };
    let want_id = if preset_last == i32::MAX { 1 } else { preset_last as i64 + 1 };
    if refused_locally(r) {
        if !wire.is_empty() || res.is_ok() {
            rep.violation("request:empty-value-set-not-refused", &format!("{:?}: result {:?}, {} bytes written", r, res, wire.len()), replay());
        }
        return;
    }
    let t = match ber::decode_all(&wire) {
        Ok(t) => t,
        Err(e) => {
            rep.violation("request:not-one-ber-element", &format!("{:?}: wire bytes are not exactly one BER element: {:?} ({})", r, e, ber::hex(&wire)), replay());
            return;
        }
    };
    let mut n2 = vec![];
    let got = match Msg::from_tlv(&t, &mut n2) {
        Ok(m) => m,
        Err(e) => {
            rep.violation("request:not-an-ldapmessage", &format!("{:?}: {} ({})", r, e, ber::hex(&wire)), replay());
            return;
        }
    };
    if let Err(e) = &res {
        rep.violation("request:call-failed", &format!("{:?} failed: {}", r, e), replay());
        return;
    }
    let want = model_msg(want_id, r, ctl);
    if got != want {
        let what = if got.id != want.id { "id" } else if got.controls != want.controls { "controls" } else { "op" };
        rep.violation(&format!("request:wrong-pdu:{}:{}", what, kind(r)), &format!("{:?} (controls {:?}) was written as {:?}, expected {:?}", r, ctl, got, want), replay());
        return;
    }
    if !n2.is_empty() || !notes.is_empty() {
        rep.violation("request:non-canonical", &format!("{:?}: {:?} ({})", r, n2, ber::hex(&wire)), replay());
    }
    if ber::encode(&t) != wire {
        rep.violation("request:length-not-minimal", &format!("{:?}: re-encoding with minimal definite lengths differs from the wire bytes {}", r, ber::hex(&wire)), replay());
    }
    if leftover != (false, false, false) {
        rep.violation("modifier:left-on-handle", &format!("{:?}: after the call the handle still holds (controls, timeout, search_opts) = {:?}", r, leftover), replay());
    }
}

fn kind(r: &Req) -> &'static str {
    match r {
        Req::Bind(..) => "bind",
        Req::SaslExternal => "sasl",
        Req::Search { .. } => "search",
        Req::Add(..) => "add",
        Req::Compare(..) => "compare",
        Req::Delete(_) => "delete",
        Req::Modify(..) => "modify",
        Req::ModDn(..) => "moddn",
        Req::Extended(..) | Req::PassMod(..) | Req::WhoAmI => "extended",
        Req::Abandon(_) => "abandon",
        Req::Unbind => "unbind",
    }
}

fn requests(tier: Tier) -> Vec<Req> {
    let d = dns();
    let bv = bvals();
    let mut v = vec![];
    for dn in &d {
        for pw in ["", "secret", &"p".repeat(130), "ć€𐍈"] {
            v.push(Req::Bind(dn.clone(), pw.to_string()));
        }
        v.push(Req::Delete(dn.clone()));
        for a in ["cn", "userCertificate;binary"] {
            for val in &bv {
                v.push(Req::Compare(dn.clone(), a.to_string(), val.clone()));
            }
        }
        for rdn in ["cn=b", "cn=ć"] {
            for del in [false, true] {
                for sup in [None, Some(""), Some("ou=x,dc=y")] {
                    v.push(Req::ModDn(dn.clone(), rdn.to_string(), del, sup.map(|s| s.to_string())));
                }
            }
        }
    }
    v.push(Req::SaslExternal);
    v.push(Req::Unbind);
    for id in [1, 127, 128, 255, 256, 32767, 32768, 65536, i32::MAX] {
        v.push(Req::Abandon(id));
    }
    for n in ["1.2.3", "1.3.6.1.4.1.4203.1.11.3"] {
        for val in [None, Some(vec![]), Some(vec![0x30, 0x00]), Some(vec![7u8; 300])] {
            v.push(Req::Extended(n.to_string(), val));
        }
    }
    v.push(Req::WhoAmI);
    let f = [None, Some(""), Some("uid=jdoe,ou=é"), Some("p\u{e4}$$w0rd")];
    for u in f {
        for o in f {
            for n in f {
                if u.is_some() || o.is_some() || n.is_some() {
                    v.push(Req::PassMod(u.map(String::from), o.map(String::from), n.map(String::from)));
                }
            }
        }
    }
    // searches
    let limits = [0i32, 1, 127, 128, 255, 256, 32767, 32768, i32::MAX];
    let attr_lists: Vec<Vec<String>> = vec![vec![], vec!["cn".into()], vec!["*".into(), "+".into()], vec!["cn".into(), "sn".into(), "1.1".into()]];
    let mut k = 0usize;
    for base in &d {
        for scope in 0..3u8 {
            for deref in 0..4u8 {
                for typesonly in [false, true] {
                    for size in limits {
                        k += 1;
                        if tier == Tier::Quick && k % 3 != 0 {
                            continue;
                        }
                        v.push(Req::Search {
                            base: base.clone(),
                            scope,
                            deref,
                            typesonly,
                            size,
                            time: limits[(k * 5) % limits.len()],
                            filter: k % filter_pool().len(),
                            attrs: attr_lists[(k / 2) % attr_lists.len()].clone(),
                            with_opts: k % 7 != 0,
                        });
                    }
                }
            }
        }
    }
    // add: attribute lists of size 0..3
    let attr_menu: Vec<(Vec<u8>, Vec<Vec<u8>>)> = vec![
        (b"cn".to_vec(), vec![b"a".to_vec()]),
        (b"sn".to_vec(), vec![bv[1].clone(), bv[2].clone()]),
        (b"jpegPhoto".to_vec(), vec![bv[3].clone(), bv[0].clone()]),
        (b"objectClass".to_vec(), vec![b"top".to_vec(), b"person".to_vec(), vec![0xc4, 0x87]]),
        (b"empty".to_vec(), vec![]),
    ];
    let mut lists: Vec<Vec<(Vec<u8>, Vec<Vec<u8>>)>> = vec![vec![]];
    for a in &attr_menu {
        lists.push(vec![a.clone()]);
        for b in &attr_menu {
            lists.push(vec![a.clone(), b.clone()]);
            for c in attr_menu.iter().take(2) {
                lists.push(vec![a.clone(), b.clone(), c.clone()]);
            }
        }
    }
    for (i, l) in lists.iter().enumerate() {
        v.push(Req::Add(d[i % d.len()].clone(), l.clone()));
    }
    // modify: mod lists of size 0..2 over every op x value-set size
    let mut mod_menu: Vec<(u8, Vec<u8>, Vec<Vec<u8>>)> = vec![];
    for op in 0..3u8 {
        for vals in [vec![], vec![b"v".to_vec()], vec![bv[2].clone(), bv[3].clone()]] {
            mod_menu.push((op, b"description".to_vec(), vals));
        }
    }
    mod_menu.push((3, b"uidNumber".to_vec(), vec![b"1".to_vec()]));
    let mut mlists: Vec<Vec<(u8, Vec<u8>, Vec<Vec<u8>>)>> = vec![vec![]];
    for a in &mod_menu {
        mlists.push(vec![a.clone()]);
        for b in &mod_menu {
            mlists.push(vec![a.clone(), b.clone()]);
        }
    }
    for (i, l) in mlists.iter().enumerate() {
        v.push(Req::Modify(d[i % d.len()].clone(), l.clone()));
    }
    v
}

// ------------------------------------------------------------------------------------------ histories
#[derive(Clone, Copy, Debug, PartialEq, Eq)]
enum HOp {
    Bind,
    SearchOk,
    SearchBadFilter,
    StreamEntriesOnly,
    Compare,
    SilentCompare,
    AddEmpty,
    Abandon,
    Extended,
    /// a clone of the handle is made while the modifiers are pending and used for a Delete
    /// first (which must not carry them), then the handle itself does a Compare (which must)
    CompareAfterCloneDelete,
}

const HOPS: [HOp; 10] =
    [HOp::Bind, HOp::SearchOk, HOp::SearchBadFilter, HOp::StreamEntriesOnly, HOp::Compare, HOp::SilentCompare, HOp::AddEmpty, HOp::Abandon, HOp::Extended, HOp::CompareAfterCloneDelete];

fn is_search(o: HOp) -> bool {
    matches!(o, HOp::SearchOk | HOp::StreamEntriesOnly)
}

fn judge_history(rep: &Reporter, seq: &[(HOp, u8)], evals: &AtomicU64) {
    evals.fetch_add(1, Ordering::Relaxed);
    let replay = || json!({"engine":"c02","history":format!("{:?}", seq)});
    let seq2 = seq.to_vec();
    let r = catch(move || {
        let mut rig = Rig::new(|m| if super::util::marker_of(&m.op) == "silent" { (Behave::Silent, 0) } else { (Behave::Rc(0), 1) });
        rig.spawn_driver();
        let mut ldap = rig.ldap.clone();
        let mut outcomes: Vec<(String, u64, (bool, bool, bool))> = vec![];
        rig.rt.block_on(async {
            for (k, (op, mods)) in seq2.iter().enumerate() {
                if mods & 1 != 0 {
                    ldap.with_controls(RawControl { ctype: "1.2.3".into(), crit: true, val: Some(vec![k as u8]) });
                }
                if mods & 2 != 0 {
                    ldap.with_timeout(Duration::from_millis(10));
                }
                if mods & 4 != 0 {
                    ldap.with_search_options(SearchOptions::new().sizelimit(7).typesonly(true).deref(DerefAliases::Always).timelimit(9));
                }
                let t0 = tokio::time::Instant::now();
                let marker = format!("h{}", k);
                let fut = async {
                    match op {
                        HOp::Bind => ldap.simple_bind(&marker, "pw").await.map(|_| ()).map_err(|e| e.to_string()),
                        HOp::SearchOk => ldap.search(&marker, Scope::Subtree, "(a=b)", vec!["cn"]).await.map(|_| ()).map_err(|e| e.to_string()),
                        HOp::SearchBadFilter => ldap.search(&marker, Scope::Subtree, "(a=b", vec!["cn"]).await.map(|_| ()).map_err(|e| e.to_string()),
                        HOp::StreamEntriesOnly => match ldap.streaming_search_with(EntriesOnly::new(), &marker, Scope::Base, "(a=b)", vec!["cn"]).await {
                            Ok(mut s) => {
                                let mut r = Ok(());
                                loop {
                                    match s.next().await {
                                        Ok(Some(_)) => {}
                                        Ok(None) => break,
                                        Err(e) => {
                                            r = Err(e.to_string());
                                            break;
                                        }
                                    }
                                }
                                let _ = s.finish().await;
                                r
                            }
                            Err(e) => Err(e.to_string()),
                        },
                        HOp::Compare => ldap.compare(&marker, "a", "v").await.map(|_| ()).map_err(|e| e.to_string()),
                        HOp::SilentCompare => ldap.compare("silent", "a", "v").await.map(|_| ()).map_err(|e| e.to_string()),
                        HOp::AddEmpty => ldap.add(&marker, vec![("cn", HashSet::<&str>::new())]).await.map(|_| ()).map_err(|e| e.to_string()),
                        HOp::Abandon => ldap.abandon(77).await.map_err(|e| e.to_string()),
                        HOp::Extended => ldap.extended(Exop { name: Some(marker.clone()), val: None }).await.map(|_| ()).map_err(|e| e.to_string()),
                        HOp::CompareAfterCloneDelete => {
                            let mut c = ldap.clone();
                            match c.delete(&format!("{}c", marker)).await {
                                Ok(_) => ldap.compare(&marker, "a", "v").await.map(|_| ()).map_err(|e| e.to_string()),
                                Err(e) => Err(format!("clone: {}", e)),
                            }
                        }
                    }
                };
                let res = match tokio::time::timeout(Duration::from_secs(3600), fut).await {
                    Ok(Ok(())) => "ok".to_string(),
                    Ok(Err(e)) => format!("err:{}", e),
                    Err(_) => "pending-after-1h".to_string(),
                };
                let dt = t0.elapsed().as_millis() as u64;
                outcomes.push((res, dt, (ldap.controls.is_some(), ldap.timeout.is_some(), ldap.search_opts.is_some())));
            }
        });
        (outcomes, rig.requests())
    });
    let (outcomes, reqs) = match r {
        Ok(x) => x,
        Err(p) => {
            rep.violation("history:panic", &format!("{:?} panicked: {}", seq, p), replay());
            return;
        }
    };
    // requests by marker
    let find = |marker: &str| -> Vec<Msg> { reqs.iter().filter_map(|r| r.as_ref().ok()).filter(|m| super::util::marker_of(&m.op) == marker).cloned().collect() };
    for (k, (op, mods)) in seq.iter().enumerate() {
        let (res, dt, left) = &outcomes[k];
        let marker = if *op == HOp::SilentCompare { "silent".to_string() } else { format!("h{}", k) };
        let sent = find(&marker);
        if *left != (false, false, false) {
            rep.violation(
                &format!("modifier:left-on-handle:{:?}", op),
                &format!("history {:?}: after step {} ({:?}) the handle still holds (controls, timeout, search_opts) = {:?}", seq, k, op, left),
                replay(),
            );
            return;
        }
        match op {
            HOp::SearchBadFilter | HOp::AddEmpty => {
                if !sent.is_empty() || !res.starts_with("err:") {
                    rep.violation("history:invalid-call-not-refused", &format!("history {:?}: step {} {:?} -> {} with {} request(s)", seq, k, op, res, sent.len()), replay());
                }
                continue;
            }
            HOp::Abandon => continue,
            _ => {}
        }
        // timing: a timeout affects exactly this operation
        if *op == HOp::SilentCompare {
            let want_timeout = mods & 2 != 0;
            if want_timeout && !(res.starts_with("err:timeout") && *dt == 10) {
                rep.violation("modifier:timeout-not-applied", &format!("history {:?}: step {} has a 10 ms timeout on a silent server but ended as {} after {} ms", seq, k, res, dt), replay());
            }
            if !want_timeout && res != "pending-after-1h" {
                rep.violation("modifier:stale-timeout", &format!("history {:?}: step {} has no timeout, the server is silent, yet it ended as {} after {} ms", seq, k, res, dt), replay());
            }
        } else if res != "ok" {
            rep.violation("history:call-failed", &format!("history {:?}: step {} {:?} -> {}", seq, k, op, res), replay());
            continue;
        }
        let m = match sent.last() {
            Some(m) if *op != HOp::SilentCompare || sent.len() >= 1 => m.clone(),
            _ => {
                rep.violation("history:request-missing", &format!("history {:?}: no request seen for step {}", seq, k), replay());
                continue;
            }
        };
        let m = if *op == HOp::SilentCompare {
            // several silent compares share the marker: take them in order
            let idx = seq[..k].iter().filter(|(o, _)| *o == HOp::SilentCompare).count();
            match sent.get(idx) {
                Some(m) => m.clone(),
                None => m,
            }
        } else {
            m
        };
        if *op == HOp::CompareAfterCloneDelete {
            match find(&format!("{}c", marker)).last() {
                Some(cm) if cm.controls.is_none() => {}
                other => {
                    rep.violation(
                        "modifier:inherited-by-clone",
                        &format!("history {:?}: step {}: the Delete issued on a clone made while modifiers were pending was sent as {:?} (expected no controls)", seq, k, other),
                        replay(),
                    );
                }
            }
        }
        let want_ctl = if mods & 1 != 0 { Some(vec![Ctl { oid: b"1.2.3".to_vec(), crit: Some(true), val: Some(vec![k as u8]) }]) } else { None };
        if m.controls != want_ctl {
            rep.violation(
                &format!("modifier:controls:{}", if want_ctl.is_some() { "missing-or-wrong" } else { "stale" }),
                &format!("history {:?}: step {} {:?} was sent with controls {:?}, expected {:?}", seq, k, op, m.controls, want_ctl),
                replay(),
            );
        }
        if is_search(*op) {
            if let Op::SearchReq { deref, sizelimit, timelimit, typesonly, .. } = &m.op {
                let got = (*deref, *sizelimit, *timelimit, *typesonly);
                let want = if mods & 4 != 0 { (3, 7, 9, true) } else { (0, 0, 0, false) };
                if got != want {
                    rep.violation(
                        &format!("modifier:search-options:{}", if mods & 4 != 0 { "not-applied" } else { "stale" }),
                        &format!("history {:?}: step {} {:?} was sent with (deref,size,time,typesonly) = {:?}, expected {:?}", seq, k, op, got, want),
                        replay(),
                    );
                }
            }
        }
    }
}

pub fn run(tier: Tier) -> i32 {
    let rep = std::sync::Arc::new(Reporter::new("C02", tier));
    let evals = AtomicU64::new(0);
    let reqs = requests(tier);
    let cls = ctl_lists();
    let presets = [0i32, 126, 127, 254, 255, 32766, 32767, 65535, 8388607, i32::MAX - 1, i32::MAX];
    // lane a1: every request (controls and IDs rotating)
    par_for(reqs.len() as u64, |i| {
        let k = i as usize;
        let ctl = if k % 3 == 0 { None } else { Some(cls[k % cls.len()].clone()) };
        judge_one(&rep, &reqs[k], &ctl, presets[k % presets.len()], &evals);
    });
    // lane a2: one request of every kind x every control list x every ID position
    let mut kinds: Vec<Req> = vec![];
    for r in &reqs {
        if !kinds.iter().any(|k| kind(k) == kind(r)) && !refused_locally(r) {
            kinds.push(r.clone());
        }
    }
    let n = (kinds.len() * cls.len() * presets.len()) as u64;
    par_for(n, |i| {
        let mut x = i as usize;
        let r = &kinds[x % kinds.len()];
        x /= kinds.len();
        let c = &cls[x % cls.len()];
        x /= cls.len();
        judge_one(&rep, r, &Some(c.clone()), presets[x], &evals);
    });
    // lane a3: length sweep — every content length across the 1/2/3-octet length-form boundaries
    // at every nesting level (string, operation, message)
    let mut lens: Vec<usize> = (0..=300).collect();
    lens.extend(65480..=65560);
    // sizes between and beyond the classic boundaries (buffer and chunk sizes, powers of two, odd sizes)
    lens.extend([511usize, 512, 513, 1000, 1023, 1024, 1025, 2047, 2048, 4095, 4096, 4097, 5000, 8191, 8192, 8193, 10000, 16383, 16384, 16385, 20000, 32767, 32768, 32769, 40000, 100000, 131072, 1 << 20]);
    // dense up to 1300 and around every power-of-two buffer size (total encodings cross 1024,
    // 2048, ... a few dozen octets below the value size)
    lens.extend(300..=1300);
    for c in [2048usize, 4096, 8192, 16384, 32768, 65536, 131072] {
        lens.extend(c - 90..=c + 16);
    }
    if tier == Tier::Thorough {
        lens.extend(1300..=4200);
        lens.extend(16777200..=16777230);
    }
    lens.sort_unstable();
    lens.dedup();
    par_for(lens.len() as u64, |i| {
        let l = lens[i as usize];
        let s = "z".repeat(l);
        let k = i as usize;
        let ctl = if k % 2 == 0 { None } else { Some(cls[k % cls.len()].clone()) };
        let sweep = vec![
            Req::Delete(s.clone()),
            Req::Bind(s.clone(), "pw".into()),
            Req::Bind("cn=a".into(), s.clone()),
            Req::Compare("cn=a".into(), "cn".into(), s.clone().into_bytes()),
            Req::Extended("1.2.3".into(), Some(s.clone().into_bytes())),
            Req::Search { base: s.clone(), scope: 2, deref: 0, typesonly: false, size: 0, time: 0, filter: 0, attrs: vec![], with_opts: false },
            Req::Search { base: "".into(), scope: 0, deref: 0, typesonly: false, size: 0, time: 0, filter: 0, attrs: vec![s.clone()], with_opts: false },
            Req::Add("cn=a".into(), vec![(b"description".to_vec(), vec![s.clone().into_bytes()])]),
            Req::Modify("cn=a".into(), vec![(2, b"description".to_vec(), vec![s.clone().into_bytes()])]),
            Req::ModDn("cn=a".into(), "cn=b".into(), true, Some(s.clone())),
        ];
        for r in &sweep {
            judge_one(&rep, r, &ctl, presets[k % presets.len()], &evals);
        }
    });
    // lane a4: counts — n controls, n attributes, n values, n modifications, n requested
    // attributes, for every n up to 40 and a few larger ones
    let counts: Vec<usize> = (0..=40).chain([63, 64, 65, 127, 128, 129, 255, 256, 257, 1000]).collect();
    par_for(counts.len() as u64, |i| {
        let n = counts[i as usize];
        let many_ctl: Vec<(String, bool, Option<Vec<u8>>)> = (0..n).map(|k| (format!("1.2.{}", k), k % 3 == 0, if k % 2 == 0 { Some(vec![k as u8; k % 5]) } else { None })).collect();
        let names: Vec<String> = (0..n).map(|k| format!("attr{}", k)).collect();
        let vals: Vec<Vec<u8>> = (0..n).map(|k| format!("v{}", k).into_bytes()).collect();
        let reqs = vec![
            (Req::Delete("cn=a".into()), Some(many_ctl.clone())),
            (Req::Compare("cn=a".into(), "cn".into(), b"v".to_vec()), Some(many_ctl.clone())),
            (Req::Search { base: "dc=x".into(), scope: 2, deref: 0, typesonly: false, size: 0, time: 0, filter: 1, attrs: names.clone(), with_opts: false }, if n % 2 == 0 { Some(many_ctl.clone()) } else { None }),
            (Req::Add("cn=a".into(), names.iter().map(|a| (a.clone().into_bytes(), vec![b"x".to_vec()])).collect()), None),
            (Req::Add("cn=a".into(), vec![(b"member".to_vec(), vals.clone())]), None),
            (Req::Modify("cn=a".into(), names.iter().enumerate().map(|(k, a)| ((k % 3) as u8, a.clone().into_bytes(), vec![b"y".to_vec()])).collect()), None),
            (Req::Modify("cn=a".into(), vec![(2, b"member".to_vec(), vals.clone())]), None),
            (Req::ModDn(format!("{}dc=x", "ou=u,".repeat(n)), "cn=b".into(), false, Some(format!("{}dc=y", "ou=s,".repeat(n)))), None),
        ];
        for (r, c) in &reqs {
            // (an add / modify without any value is refused locally: not a wire case)
            if n == 0 && matches!(r, Req::Add(_, v) if v.iter().any(|x| x.1.is_empty()) || v.is_empty()) {
                continue;
            }
            if n == 0 && matches!(r, Req::Modify(_, v) if v.iter().any(|x| x.2.is_empty())) {
                continue;
            }
            judge_one(&rep, r, c, presets[n % presets.len()], &evals);
        }
    });
    let lane_a = evals.load(Ordering::Relaxed);
    // lane b: histories
    let steps: Vec<(HOp, u8)> = HOPS.iter().flat_map(|o| (0..8u8).map(move |m| (*o, m))).collect();
    let ns = steps.len() as u64;
    par_for(ns, |i| judge_history(&rep, &[steps[i as usize]], &evals));
    par_for(ns * ns, |i| judge_history(&rep, &[steps[(i / ns) as usize], steps[(i % ns) as usize]], &evals));
    if tier == Tier::Thorough {
        par_for(ns * ns * ns, |i| {
            judge_history(&rep, &[steps[(i / (ns * ns)) as usize], steps[((i / ns) % ns) as usize], steps[(i % ns) as usize]], &evals)
        });
    } else {
        // length 3: modifier set on the first step only, every op triple
        let h = HOPS.len() as u64;
        par_for(h * h * h * 8, |i| {
            let m = (i % 8) as u8;
            let j = i / 8;
            judge_history(&rep, &[(HOPS[(j / (h * h)) as usize], m), (HOPS[((j / h) % h) as usize], 0), (HOPS[(j % h) as usize], 0)], &evals)
        });
    }
    // lane c: requests issued by the library on the caller's behalf (PagedResults follow-ups):
    // every follow-up must be the same SearchRequest with the caller's controls and exactly
    // one paging control (explicit-state search over the real adapter, E1 paging server)
    let mut scns = vec![];
    {
        use crate::e1::types::*;
        for (n, p, ctrl, opts) in [(4usize, 1i32, true, false), (5, 2, true, true), (3, 1, false, true)] {
            for chain in [Chain::Paged(p), Chain::EntriesPaged(p)] {
                let mut s = Scenario::new(&format!("C02/paged-followups/n{}p{}/{:?}", n, p, chain));
                let mut script = vec![Call::Start { marker: "pg".into(), chain, timeout: None, ctrl, opts, own_paging: false }];
                for _ in 0..=n {
                    script.push(Call::Next);
                }
                script.push(Call::Finish);
                s.clients = vec![ClientSpec { script, free: 0 }];
                s.plans.insert("pg".into(), Plan { total: n, ..Default::default() });
                s.select_starts = vec![1];
                s.oracles = Oracles { paged: true, route: true, stream: true, ..Default::default() };
                scns.push(s);
            }
        }
    }
    let t = crate::e1::explore_all(&rep, scns, false);
    evals.fetch_add(t.transitions, Ordering::Relaxed);
    let total = evals.load(Ordering::Relaxed);
    let c = cov(vec![
        ("evaluations", json!(total)),
        ("distinct_nontrivial", json!(total)),
        ("rule", json!("lane a: every request of the per-operation argument products (DNs {\"\", short, 130 B, 300 B, multi-byte}; byte values {empty, 00, ff, 80 7f}; list sizes 0-3; scope x deref x typesOnly x limits {0,1,127,128,255,256,32767,32768,2^31-1}; mod ops x 0-2 values; exop values; abandon IDs) with control lists (0-2 controls x criticality x value {none, empty, bytes}) and message-ID positions rotating, plus every operation kind x every control list x every ID position; the wire bytes are decoded by the independent decoder and compared with a model built from the arguments. lane b: every history of length <= 2 (thorough: 3) over 9 operation kinds x 8 modifier subsets (controls, timeout, search options) on one handle against a reactive server (one operation kind is never answered, so stale or missing timeouts are observable on the virtual clock). Every case is distinct by construction and exercises at least one encoder path")),
        ("lane_a_requests", json!(lane_a)),
        ("lane_b_histories", json!(total - lane_a - t.transitions)),
        ("lane_c_paged_followup_states", json!(t.states)),
        ("lane_c_paged_followup_transitions", json!(t.transitions)),
        ("samples", json!([format!("{:?}", reqs[reqs.len() / 2]), "history [(SearchOk, controls+options), (SilentCompare, none)]"])),
        ("exhaustive", json!(true)),
    ]);
    rep.finish("exploration", c, vec!["requests are decoded by the independent RFC 4511 decoder (vcore::msg); the reactive in-memory server answers inside poll_write".into()])
}

pub fn replay(v: &serde_json::Value) -> i32 {
    println!("{}", serde_json::to_string_pretty(&v["replay"]).unwrap());
    println!("(C02 replays are descriptive: re-run ./check C02 quick to reproduce; the case is identified by the request/history text above)");
    0
}
