//! C08 — filter strings compile to the filter they denote (bounded-exhaustive, two lanes).

use crate::common::{catch, cov, par_for, Reporter, Tier};
use crate::vcore::ber;
use crate::vcore::filter::{normalise_escapes, parse_str, Filter};
use bytes::BytesMut;
use lber::structures::ASNTag;
use serde_json::json;
use std::sync::atomic::{AtomicU64, Ordering};

/// real parser -> BER -> reference decoder
pub enum Real {
    Rejected,
    Accepted(Filter),
    Undecodable(String),
    Panicked(String),
}

pub fn real_parse(s: &[u8]) -> Real {
    let r = catch(|| {
        ldap3::parse_filter(s).ok().map(|tag| {
            let mut b = BytesMut::new();
            lber::write::encode_into(&mut b, tag.into_structure()).expect("encode");
            b.to_vec()
        })
    });
    match r {
        Err(p) => Real::Panicked(p),
        Ok(None) => Real::Rejected,
        Ok(Some(bytes)) => match ber::decode_all(&bytes) {
            Ok(t) => match Filter::from_tlv(&t) {
                Ok(f) => Real::Accepted(f),
                Err(e) => Real::Undecodable(format!("{} ({})", e, ber::hex(&bytes))),
            },
            Err(e) => Real::Undecodable(format!("{:?} ({})", e, ber::hex(&bytes))),
        },
    }
}

fn show(s: &[u8]) -> String {
    String::from_utf8_lossy(s).into_owned().replace('\0', "\\0")
}

/// must-reject classes that can be decided by looking at the string alone
fn must_reject(s: &[u8]) -> Option<&'static str> {
    // malformed escapes
    let mut i = 0;
    while i < s.len() {
        if s[i] == b'\\' {
            if i + 2 >= s.len() {
                return Some("malformed-escape");
            }
            if !(s[i + 1].is_ascii_hexdigit() && s[i + 2].is_ascii_hexdigit()) {
                return Some("malformed-escape");
            }
            i += 3;
        } else {
            i += 1;
        }
    }
    if s.contains(&0) {
        return Some("raw-nul");
    }
    if s.windows(2).any(|w| w == b"**") {
        return Some("adjacent-asterisks");
    }
    // parentheses: balanced, never negative; trailing text after the outermost filter
    let mut depth = 0i32;
    let mut closed_at = None;
    for (k, &c) in s.iter().enumerate() {
        if c == b'(' {
            if closed_at.is_some() {
                return Some("trailing-text");
            }
            depth += 1;
        } else if c == b')' {
            depth -= 1;
            if depth < 0 {
                return Some("unbalanced-parentheses");
            }
            if depth == 0 {
                closed_at = Some(k);
            }
        } else if closed_at.is_some() {
            return Some("trailing-text");
        }
    }
    if depth != 0 {
        return Some("unbalanced-parentheses");
    }
    if s.first() != Some(&b'(') && (s.contains(&b'(') || s.contains(&b')')) {
        return Some("unescaped-parenthesis-in-bare-item");
    }
    // empty attribute description
    for op in [&b"(="[..], b"(>=", b"(<=", b"(~="] {
        if s.windows(op.len()).any(|w| w == op) {
            return Some("empty-attribute");
        }
    }
    if s.starts_with(b"=") || s.starts_with(b">=") || s.starts_with(b"<=") || s.starts_with(b"~=") {
        return Some("empty-attribute");
    }
    if s.is_empty() {
        return Some("empty-string");
    }
    None
}

struct Counters {
    evals: AtomicU64,
    accepted_either: AtomicU64,
    ref_accepted: AtomicU64,
    real_accepted: AtomicU64,
    must_reject: AtomicU64,
}

fn judge_string(rep: &Reporter, s: &[u8], c: &Counters, lane: &str) {
    c.evals.fetch_add(1, Ordering::Relaxed);
    // raw bytes that are not valid UTF-8 are outside RFC 4515: only oracle parts 2 and 3 apply
    let strict = if std::str::from_utf8(s).is_ok() { parse_str(s, false) } else { None };
    let real = real_parse(s);
    let replay = || json!({"engine":"c08","lane":lane,"hex":ber::hex(s),"text":show(s)});
    if strict.is_some() {
        c.ref_accepted.fetch_add(1, Ordering::Relaxed);
    }
    if strict.is_some() || matches!(real, Real::Accepted(_)) {
        c.accepted_either.fetch_add(1, Ordering::Relaxed);
    }
    match &real {
        Real::Panicked(p) => {
            rep.violation("filter:panic", &format!("parse_filter({:?}) panicked: {}", show(s), p), replay());
            return;
        }
        Real::Undecodable(e) => {
            rep.violation("filter:ber-undecodable", &format!("parse_filter({:?}) produced BER that is not a Filter: {}", show(s), e), replay());
            return;
        }
        _ => {}
    }
    // (1) grammar strings are accepted with the AST they denote
    if let Some(want) = &strict {
        match &real {
            Real::Rejected => {
                let class = classify_rejected(want);
                rep.violation(&format!("filter:rfc4515-string-rejected:{}", class), &format!("{:?} is in the RFC 4515 grammar (denotes {:?}) but was rejected", show(s), want), replay());
            }
            Real::Accepted(got) => {
                if got != want {
                    rep.violation("filter:wrong-ast", &format!("{:?} compiled to {:?}, it denotes {:?}", show(s), got, want), replay());
                }
            }
            _ => {}
        }
    }
    // (2) whatever is accepted means what it says
    if let Real::Accepted(got) = &real {
        c.real_accepted.fetch_add(1, Ordering::Relaxed);
        let printed = got.print().into_bytes();
        let mut input = match normalise_escapes(s) {
            Some(n) => n,
            None => {
                rep.violation("filter:accepted-malformed-escape", &format!("{:?} was accepted although an escape is malformed", show(s)), replay());
                return;
            }
        };
        if s.first() != Some(&b'(') {
            input.insert(0, b'(');
            input.push(b')');
        }
        if printed != input {
            rep.violation(
                "filter:does-not-mean-what-it-says",
                &format!("{:?} was accepted as {:?}, whose canonical print {:?} differs from the input {:?}", show(s), got, show(&printed), show(&input)),
                replay(),
            );
        }
    }
    // (3) must-reject classes
    if let Some(class) = must_reject(s) {
        c.must_reject.fetch_add(1, Ordering::Relaxed);
        if let Real::Accepted(got) = &real {
            rep.violation(&format!("filter:accepted-invalid:{}", class), &format!("{:?} ({}) was accepted as {:?}", show(s), class, got), replay());
        }
        if strict.is_some() {
            panic!("verif-machinery: reference recogniser accepts a must-reject string {:?} ({})", show(s), class);
        }
    }
}

fn classify_rejected(f: &Filter) -> String {
    fn walk(f: &Filter, out: &mut Vec<String>) {
        match f {
            Filter::And(v) | Filter::Or(v) => v.iter().for_each(|x| walk(x, out)),
            Filter::Not(x) => walk(x, out),
            Filter::Ext { rule: Some(r), .. } if r.starts_with(b"dn") => out.push("matching-rule-name-starting-with-dn".into()),
            Filter::Ext { .. } => out.push("extensible".into()),
            Filter::Substr { .. } => out.push("substring".into()),
            Filter::Present(_) => out.push("present".into()),
            _ => out.push("simple".into()),
        }
    }
    let mut v = vec![];
    walk(f, &mut v);
    v.sort();
    v.dedup();
    if v.iter().any(|x| x == "matching-rule-name-starting-with-dn") {
        "matching-rule-name-starting-with-dn".into()
    } else {
        v.join("+")
    }
}

// ------------------------------------------------------------------------------------------ AST lane
fn esc_choices(v: &[u8]) -> Vec<Vec<u8>> {
    // every per-byte choice {raw if legal, \xx, \XX}
    let mut outs: Vec<Vec<u8>> = vec![vec![]];
    for &b in v {
        let mut opts: Vec<Vec<u8>> = vec![];
        let raw_ok = b != 0 && b != b'(' && b != b')' && b != b'*' && b != b'\\';
        if raw_ok {
            opts.push(vec![b]);
        }
        opts.push(format!("\\{:02x}", b).into_bytes());
        let up = format!("\\{:02X}", b).into_bytes();
        if !opts.contains(&up) {
            opts.push(up);
        }
        let mut next = vec![];
        for o in &outs {
            for p in &opts {
                let mut n = o.clone();
                n.extend_from_slice(p);
                next.push(n);
            }
        }
        outs = next;
    }
    outs
}

fn values(tier: Tier) -> Vec<Vec<u8>> {
    let bytes: [u8; 8] = [b'v', b'*', b'(', b')', b'\\', 0x00, 0x80, b' '];
    let mut out: Vec<Vec<u8>> = vec![vec![]];
    for a in bytes {
        out.push(vec![a]);
        for b in bytes {
            out.push(vec![a, b]);
            if tier == Tier::Thorough {
                for c in bytes {
                    out.push(vec![a, b, c]);
                }
            }
        }
    }
    out.push(b"c3".to_vec());
    out.push("ć€".as_bytes().to_vec());
    out.push(b"a=b:c;d".to_vec());
    out
}

/// every rendering of an item: per-byte escape choices of each value x with/without outer parentheses
fn render_item(f: &Filter, limit: usize) -> Vec<Vec<u8>> {
    let a = |x: &Vec<u8>| x.clone();
    let mut bodies: Vec<Vec<u8>> = vec![];
    let comb = |prefix: Vec<u8>, vals: Vec<&Vec<u8>>, seps: Vec<&[u8]>, bodies: &mut Vec<Vec<u8>>| {
        // prefix v0 sep0 v1 sep1 ...
        let mut acc: Vec<Vec<u8>> = vec![prefix];
        for (i, v) in vals.iter().enumerate() {
            let mut next = vec![];
            for base in &acc {
                for e in esc_choices(v) {
                    let mut n = base.clone();
                    n.extend_from_slice(&e);
                    if i < seps.len() {
                        n.extend_from_slice(seps[i]);
                    }
                    next.push(n);
                    if next.len() > limit {
                        break;
                    }
                }
            }
            acc = next;
        }
        bodies.extend(acc);
    };
    match f {
        Filter::Eq(at, v) => comb([a(at), b"=".to_vec()].concat(), vec![v], vec![], &mut bodies),
        Filter::Ge(at, v) => comb([a(at), b">=".to_vec()].concat(), vec![v], vec![], &mut bodies),
        Filter::Le(at, v) => comb([a(at), b"<=".to_vec()].concat(), vec![v], vec![], &mut bodies),
        Filter::Approx(at, v) => comb([a(at), b"~=".to_vec()].concat(), vec![v], vec![], &mut bodies),
        Filter::Present(at) => bodies.push([a(at), b"=*".to_vec()].concat()),
        Filter::Substr { attr, initial, any, fin } => {
            let empty = vec![];
            let mut vals: Vec<&Vec<u8>> = vec![initial.as_ref().unwrap_or(&empty)];
            let mut seps: Vec<&[u8]> = vec![b"*"];
            for x in any {
                vals.push(x);
                seps.push(b"*");
            }
            vals.push(fin.as_ref().unwrap_or(&empty));
            comb([a(attr), b"=".to_vec()].concat(), vals, seps, &mut bodies);
        }
        Filter::Ext { rule, attr, val, dn } => {
            let mut p = vec![];
            if let Some(at) = attr {
                p.extend_from_slice(at);
            }
            if *dn {
                p.extend_from_slice(b":dn");
            }
            if let Some(r) = rule {
                p.push(b':');
                p.extend_from_slice(r);
            }
            p.extend_from_slice(b":=");
            comb(p, vec![val], vec![], &mut bodies);
        }
        _ => unreachable!(),
    }
    let mut out = vec![];
    for b in bodies {
        out.push([b"(".to_vec(), b.clone(), b")".to_vec()].concat());
        out.push(b);
    }
    out
}

pub fn items_pub(tier: Tier) -> Vec<Filter> {
    items(tier)
}

fn items(tier: Tier) -> Vec<Filter> {
    let attrs: Vec<Vec<u8>> = ["a", "cn", "dn", "a;x-1", "2.5.4.3", "0.9", "dnQualifier", "a;b;c"].iter().map(|s| s.as_bytes().to_vec()).collect();
    let rules: Vec<Vec<u8>> = ["caseExactMatch", "dnSubtreeMatch", "2.5.13.5", "dnx", "d"].iter().map(|s| s.as_bytes().to_vec()).collect();
    let vals = values(tier);
    let nonempty: Vec<Vec<u8>> = vals.iter().filter(|v| !v.is_empty()).cloned().collect();
    let few: Vec<Vec<u8>> = nonempty.iter().step_by(tier.pick(9, 3)).cloned().collect();
    let mut out = vec![];
    for (ai, at) in attrs.iter().enumerate() {
        let vs: &Vec<Vec<u8>> = if ai < 2 { &vals } else { &few };
        for v in vs {
            out.push(Filter::Eq(at.clone(), v.clone()));
            out.push(Filter::Ge(at.clone(), v.clone()));
            out.push(Filter::Le(at.clone(), v.clone()));
            out.push(Filter::Approx(at.clone(), v.clone()));
        }
        out.push(Filter::Present(at.clone()));
        // substring shapes: initial? any{0..2} final?
        for ini in [None, Some(0usize)] {
            for fin in [None, Some(1usize)] {
                for nany in 0..=2usize {
                    if ini.is_none() && fin.is_none() && nany == 0 {
                        continue; // that is presence
                    }
                    for k in 0..few.len().min(tier.pick(3, 8)) {
                        let pick = |j: usize| few[(k + j) % few.len()].clone();
                        out.push(Filter::Substr {
                            attr: at.clone(),
                            initial: ini.map(|j| pick(j)),
                            any: (0..nany).map(|j| pick(j + 2)).collect(),
                            fin: fin.map(|j| pick(j)),
                        });
                    }
                }
            }
        }
        for dn in [false, true] {
            for rule in std::iter::once(None).chain(rules.iter().map(Some)) {
                for v in few.iter().take(tier.pick(4, 12)) {
                    out.push(Filter::Ext { rule: rule.cloned(), attr: Some(at.clone()), val: v.clone(), dn });
                }
            }
        }
    }
    for dn in [false, true] {
        for rule in &rules {
            for v in few.iter().take(tier.pick(4, 12)) {
                out.push(Filter::Ext { rule: Some(rule.clone()), attr: None, val: v.clone(), dn });
            }
        }
    }
    out
}

fn judge_ast(rep: &Reporter, want: &Filter, s: &[u8], c: &Counters) {
    c.evals.fetch_add(1, Ordering::Relaxed);
    c.accepted_either.fetch_add(1, Ordering::Relaxed);
    let replay = || json!({"engine":"c08","lane":"ast","hex":ber::hex(s),"text":show(s)});
    // the reference recogniser must agree with the renderer (self-check of the reference)
    match parse_str(s, false) {
        Some(f) if f == *want => {}
        other => panic!("verif-machinery: reference recogniser reads {:?} as {:?}, rendered from {:?}", show(s), other, want),
    }
    match real_parse(s) {
        Real::Accepted(got) if got == *want => {}
        Real::Accepted(got) => {
            rep.violation("filter:wrong-ast", &format!("{:?} compiled to {:?}, it denotes {:?}", show(s), got, want), replay());
        }
        Real::Rejected => {
            rep.violation(&format!("filter:rfc4515-string-rejected:{}", classify_rejected(want)), &format!("{:?} (rendering of {:?}) was rejected", show(s), want), replay());
        }
        Real::Undecodable(e) => {
            rep.violation("filter:ber-undecodable", &format!("{:?}: {}", show(s), e), replay());
        }
        Real::Panicked(p) => {
            rep.violation("filter:panic", &format!("parse_filter({:?}) panicked: {}", show(s), p), replay());
        }
    }
}

pub fn run(tier: Tier) -> i32 {
    let rep = Reporter::new("C08", tier);
    let c = Counters {
        evals: AtomicU64::new(0),
        accepted_either: AtomicU64::new(0),
        ref_accepted: AtomicU64::new(0),
        real_accepted: AtomicU64::new(0),
        must_reject: AtomicU64::new(0),
    };
    // ---- AST lane
    let its = items(tier);
    let ast_items = its.len();
    par_for(its.len() as u64, |i| {
        let f = &its[i as usize];
        for s in render_item(f, tier.pick(400, 4000)) {
            if s.first() == Some(&b'(') {
                judge_ast(&rep, f, &s, &c);
            } else {
                // a bare item is the same filter (documented extension)
                judge_ast(&rep, f, &s, &c);
            }
        }
    });
    // composites: depth 2, width <= 2
    let sub: Vec<&Filter> = its.iter().step_by(tier.pick(97, 23)).collect();
    let composites = AtomicU64::new(0);
    par_for(sub.len() as u64, |i| {
        let a = sub[i as usize];
        let pa = a.print().into_bytes();
        let mut cases: Vec<(Filter, Vec<u8>)> = vec![
            (Filter::Not(Box::new(a.clone())), [b"(!".to_vec(), pa.clone(), b")".to_vec()].concat()),
            (Filter::And(vec![a.clone()]), [b"(&".to_vec(), pa.clone(), b")".to_vec()].concat()),
            (Filter::Or(vec![a.clone()]), [b"(|".to_vec(), pa.clone(), b")".to_vec()].concat()),
        ];
        for b in sub.iter().step_by(tier.pick(7, 3)) {
            let pb = b.print().into_bytes();
            cases.push((Filter::And(vec![a.clone(), (*b).clone()]), [b"(&".to_vec(), pa.clone(), pb.clone(), b")".to_vec()].concat()));
            cases.push((Filter::Or(vec![a.clone(), (*b).clone()]), [b"(|".to_vec(), pa.clone(), pb.clone(), b")".to_vec()].concat()));
            cases.push((
                Filter::And(vec![Filter::Or(vec![a.clone(), (*b).clone()]), Filter::Not(Box::new((*b).clone()))]),
                [b"(&(|".to_vec(), pa.clone(), pb.clone(), b")(!".to_vec(), pb.clone(), b"))".to_vec()].concat(),
            ));
            cases.push((
                Filter::Not(Box::new(Filter::And(vec![(*b).clone(), a.clone()]))),
                [b"(!(&".to_vec(), pb.clone(), pa.clone(), b"))".to_vec()].concat(),
            ));
        }
        for (f, s) in cases {
            composites.fetch_add(1, Ordering::Relaxed);
            judge_ast(&rep, &f, &s, &c);
        }
    });
    for (f, s) in [(Filter::And(vec![]), &b"(&)"[..]), (Filter::Or(vec![]), b"(|)"), (Filter::Not(Box::new(Filter::And(vec![]))), b"(!(&))")] {
        judge_ast(&rep, &f, s, &c);
    }
    let ast_evals = c.evals.load(Ordering::Relaxed);

    // ---- string lane
    let s16: Vec<u8> = b"()&|!=*\\:~<>adn1".to_vec();
    let s24: Vec<u8> = [b"()&|!=*\\:;.-~<>adn102".to_vec(), vec![0x00, 0xc3, 0x87]].concat();
    let mut lanes: Vec<(&str, Vec<u8>, usize)> = vec![("sigma16", s16.clone(), tier.pick(6, 7))];
    if tier == Tier::Thorough {
        lanes.push(("sigma24", s24.clone(), 6));
    } else {
        lanes.push(("sigma24", s24.clone(), 5));
    }
    let mut string_counts = vec![];
    for (name, sigma, maxlen) in &lanes {
        let k = sigma.len() as u64;
        let mut total = 0u64;
        for len in 0..=*maxlen {
            let n = k.pow(len as u32);
            total += n;
            par_for(n, |mut i| {
                let mut s = Vec::with_capacity(len);
                for _ in 0..len {
                    s.push(sigma[(i % k) as usize]);
                    i /= k;
                }
                judge_string(&rep, &s, &c, name);
            });
        }
        string_counts.push(json!({"alphabet": name, "symbols": k, "max_len": maxlen, "strings": total}));
    }
    // ---- template lane: every byte value (and every pair of byte values) at every kind of
    // position of the grammar; '?' marks a hole, the two '?' of a two-hole template vary independently
    let one_hole: Vec<&str> = vec![
        "(?n=v)", "(c?n=v)", "(cn?=v)", "(cn?v)", "(cn=?)", "(cn=a?b)", "(cn=?*a)", "(cn=a*?*b)", "(cn=a*?)", "(cn:=?)", "(cn~=?)", "(cn>=?v)",
        "(cn;?x=v)", "(cn;x?=v)", "(cn;x-?;y=v)", "(2.?.4=v)", "(2.5?=v)", "(?.5=v)", "(2.5.4?3=v)",
        "(cn:?ule:=v)", "(cn:r?le:=v)", "(cn:rul?:=v)", "(:r?:=v)", "(:2.?:=v)", "(cn:dn?:=v)", "(cn:?n:=v)", "(cn:dn:r?:=v)", "(cn:2.5?:=v)",
        "(cn=\\?1)", "(cn=\\4?)", "(cn=a\\?1b)", "(cn:=\\2?)", "(cn=*\\?a)",
        "?(cn=v)", "(cn=v)?", "(?(cn=v))", "(&?(cn=v))", "(&(cn=v)?)", "(&(cn=v)?(sn=w))", "(!(cn=v)?)", "(|(cn=v)(sn=w))?",
        "?n=v", "c?=v", "cn=?", "cn=v?", "?cn=v", "cn:=?", "cn=a*?", "cn=?*b", "objectClas?=*", "(cn=*?)", "(cn?*)",
    ];
    let two_hole: Vec<&str> = vec!["(cn=\\??)", "(cn=??)", "(c??=v)", "(cn:??:=v)", "cn=??", "(cn;??=v)", "(cn=v??"];
    let mut template_strings = 0u64;
    for t in &one_hole {
        let tb = t.as_bytes();
        let pos = tb.iter().position(|c| *c == b'?').expect("hole");
        for b in 0..=255u8 {
            let mut s = tb.to_vec();
            s[pos] = b;
            judge_string(&rep, &s, &c, "template");
            template_strings += 1;
        }
    }
    for t in &two_hole {
        let tb = t.as_bytes().to_vec();
        let holes: Vec<usize> = tb.iter().enumerate().filter(|(_, c)| **c == b'?').map(|(i, _)| i).collect();
        assert_eq!(holes.len(), 2);
        par_for(65536, |i| {
            let mut s = tb.clone();
            s[holes[0]] = (i >> 8) as u8;
            s[holes[1]] = (i & 0xff) as u8;
            judge_string(&rep, &s, &c, "template");
        });
        template_strings += 65536;
    }
    // ---- scale lane: an escape (and a raw multi-octet character) at every offset of long values,
    // long attribute descriptions and rules, many substring parts, wide and deep composites
    let mut scale_strings = 0u64;
    {
        let mut cases: Vec<Vec<u8>> = vec![];
        for k in 0..=140usize {
            for tail in [0usize, 1, 70] {
                for esc in ["\\2a", "\\5C", "é", "\\00\\ff"] {
                    cases.push(format!("(cn={}{}{})", "a".repeat(k), esc, "b".repeat(tail)).into_bytes());
                }
            }
            cases.push(format!("(cn={}*{}\\28*)", "p".repeat(k), "q".repeat(140 - k)).into_bytes());
            cases.push(format!("({}{}=v)", "a", "b".repeat(k)).into_bytes());
            cases.push(format!("(cn;{}x=v)", "o".repeat(k)).into_bytes());
            cases.push(format!("(cn:{}r:=v)", "m".repeat(k)).into_bytes());
            cases.push(format!("(1.2.{}=v)", "7".repeat(k + 1)).into_bytes());
        }
        for n in [1usize, 2, 5, 9, 17, 33, 65, 129, 257, 1000] {
            cases.push(format!("(cn=i{}*f)", (0..n).map(|j| format!("*a{}", j)).collect::<String>()).into_bytes());
            cases.push(format!("(&{})", (0..n).map(|j| format!("(a{}=v{})", j % 10, j)).collect::<String>()).into_bytes());
            cases.push(format!("(|{})", (0..n).map(|j| format!("(!(a=v{}))", j)).collect::<String>()).into_bytes());
        }
        for d in [1usize, 2, 31, 32, 33, 63, 64, 65, 127, 128, 129, 254, 255, 256, 257, 300, 1000] {
            cases.push(format!("{}(cn=x){}", "(!".repeat(d), ")".repeat(d)).into_bytes());
            cases.push(format!("{}(cn=x){}", "(&".repeat(d), ")".repeat(d)).into_bytes());
            cases.push(format!("{}(cn=x){}", "(|(a=b)".repeat(d), ")".repeat(d)).into_bytes());
            // one parenthesis short / too many
            cases.push(format!("{}(cn=x){}", "(!".repeat(d), ")".repeat(d - 1)).into_bytes());
            cases.push(format!("{}(cn=x){}", "(!".repeat(d), ")".repeat(d + 1)).into_bytes());
        }
        for n in [100usize, 1000, 5000, 65535, 65536, 100000] {
            cases.push(format!("(description={})", "v".repeat(n)).into_bytes());
            cases.push(format!("(description={}\\2a)", "v".repeat(n)).into_bytes());
        }
        scale_strings = cases.len() as u64;
        // (deep recursion in both parsers: a worker thread with a roomy stack)
        let cases = std::sync::Arc::new(cases);
        std::thread::scope(|sc| {
            std::thread::Builder::new()
                .stack_size(256 * 1024 * 1024)
                .spawn_scoped(sc, || {
                    for s in cases.iter() {
                        judge_string(&rep, s, &c, "scale");
                    }
                })
                .expect("scale thread")
                .join()
                .expect("scale lane");
        });
    }
    // real-world shaped strings that the bounded alphabets cannot reach
    for s in [
        "(entryDN:dnSubtreeMatch:=dc=x)",
        "(&(objectClass=person)(|(cn=a*b*c)(!(uid=\\2a))))",
        "(cn:dn:2.5.13.5:=x)",
        "(:dn:caseExactMatch:=x)",
        "(o:dn:=Ace Industry)",
        "(cn:caseExactMatch:=Fred Flintstone)",
        "(sn:dn:2.4.6.8.10:=Barney Rubble)",
        "(objectClass=*)",
        "(seeAlso=)",
        "(a;x-1;y=\\00\\ff)",
        "uid=jdoe",
        // arcs of an OID are unbounded numbers
        "(1.2.4294967295=v)",
        "(1.2.4294967296=v)",
        "(2.5.340282366920938463463374607431768211456.1=v)",
        "(cn:1.3.6.1.4.1.99999999999999999999:=v)",
        "(:1.2.18446744073709551616:=v)",
        "(0.0=v)",
        "(1.02=v)",
        "(01.2=v)",
        "(organizationName;lang-xz=Zzyzx)",
        "(zz-9Z;z-z=z)",
        "(a=v) ",
        " (a=v)",
        "a=v ",
        " a=v",
        "(a=v)\n",
        "(a= v )",
    ] {
        judge_string(&rep, s.as_bytes(), &c, "handwritten");
    }

    let cvr = cov(vec![
        ("evaluations", json!(c.evals.load(Ordering::Relaxed))),
        ("distinct_nontrivial", json!(c.accepted_either.load(Ordering::Relaxed))),
        ("rule", json!("AST lane: every item AST over the attribute/rule/value alphabets rendered with every per-byte escaping choice {raw, \\xx, \\XX}, with and without outer parentheses, plus depth-2 composites; string lane: every byte string over the stated alphabets up to the stated length (distinct by construction); template lane: filter templates with a hole at every kind of grammar position (attribute, option, OID arc, matching rule, value, both escape digits, operators, before/after/between filters, bare items), the hole filled with every byte 0..=255, two-hole templates with every pair of bytes; scale lane: escapes and multi-octet characters at every offset 0..=140 of long values, long descriptions/options/rules/OID arcs, 1..1000 substring parts and components, nesting 1..1000 deep (balanced, one short, one too many), values to 100000 octets. non-trivial = accepted by the reference recogniser or by the real parser")),
        ("ast_items", json!(ast_items)),
        ("ast_renderings_checked", json!(ast_evals)),
        ("composites", json!(composites.load(Ordering::Relaxed))),
        ("string_lanes", json!(string_counts)),
        ("template_strings", json!(template_strings)),
        ("scale_strings", json!(scale_strings)),
        ("templates", json!({"one_hole_all_256_bytes": one_hole.len(), "two_holes_all_65536_pairs": two_hole.len()})),
        ("accepted_by_reference", json!(c.ref_accepted.load(Ordering::Relaxed))),
        ("accepted_by_real_parser", json!(c.real_accepted.load(Ordering::Relaxed))),
        ("in_must_reject_class", json!(c.must_reject.load(Ordering::Relaxed))),
        ("samples", json!(["(a=\\2a*v*\\29)", "a:dn:2.5.13.5:=v", "(&(cn=v)(!(dn=*)))", ")(a=", "(a=**)"])),
        ("exhaustive", json!(true)),
    ]);
    rep.finish(
        "exploration",
        cvr,
        vec![
            "the RFC 4515 reference recogniser/printer (vcore::filter) is correct; it is cross-checked against its own renderer on every AST case and against the must-reject predicates on every string".into(),
            "not judged: upper-case ':DN', nesting deeper than 2, strings longer than the bound".into(),
        ],
    )
}

pub fn replay(v: &serde_json::Value) -> i32 {
    let s = ber::unhex(v["replay"]["hex"].as_str().unwrap_or(""));
    println!("input: {:?}", show(&s));
    println!("reference (strict): {:?}", parse_str(&s, false));
    match real_parse(&s) {
        Real::Accepted(f) => println!("parse_filter: accepted as {:?} (prints {:?})", f, f.print()),
        Real::Rejected => println!("parse_filter: rejected"),
        Real::Undecodable(e) => println!("parse_filter: undecodable BER: {}", e),
        Real::Panicked(p) => println!("parse_filter: PANIC {}", p),
    }
    println!("must-reject class: {:?}", must_reject(&s));
    0
}
