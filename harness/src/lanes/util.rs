//! Shared rig for lanes that run whole operations: a real connection over the in-memory
//! transport with a reactive scripted server (answers inside poll_write, so there is no
//! scheduling freedom), on a paused-clock current-thread runtime.

use crate::e1::memio::{IoInner, MemIo, Reactor};
use crate::vcore::ber;
use crate::vcore::msg::{self, Ctl, Msg, Op, Res};
use ldap3::{Ldap, LdapConnAsync};
use std::sync::{Arc, Mutex};

#[derive(Clone, Copy, Debug, PartialEq, Eq)]
pub enum Behave {
    /// answer with this result code
    Rc(u32),
    Silent,
    /// close the connection instead of answering
    Disconnect,
}

#[derive(Default)]
pub struct ServerLog {
    pub parsed: usize,
    /// decoded requests in arrival order (or the decoding error)
    pub reqs: Vec<Result<Msg, String>>,
    pub raw: Vec<Vec<u8>>,
    pub notes: Vec<String>,
}

pub fn marker_of(op: &Op) -> String {
    let b = match op {
        Op::BindReq { name, .. } => name.clone(),
        Op::SearchReq { base, .. } => base.clone(),
        Op::DelReq(d) => d.clone(),
        Op::CompareReq { dn, .. } | Op::AddReq { dn, .. } | Op::ModifyReq { dn, .. } | Op::ModDnReq { dn, .. } => dn.clone(),
        Op::ExtReq { name, .. } => name.clone(),
        _ => vec![],
    };
    String::from_utf8_lossy(&b).into_owned()
}

/// Response(s) for one request under a behaviour. Searches answer with `entries` entries, one
/// reference and one intermediate message, then Done.
pub fn respond(m: &Msg, b: Behave, entries: usize) -> (Vec<u8>, bool) {
    let rc = match b {
        Behave::Rc(rc) => rc as i64,
        Behave::Silent => return (vec![], false),
        Behave::Disconnect => return (vec![], true),
    };
    let marker = marker_of(&m.op);
    let res = Res::new(rc, &format!("id={}", m.id), &marker);
    let ctl = Some(vec![Ctl { oid: b"1.2.3.4".to_vec(), crit: None, val: Some(marker.clone().into_bytes()) }]);
    let one = |op: Op| Msg { id: m.id, op, controls: ctl.clone() }.encode();
    let out = match &m.op {
        Op::BindReq { .. } => one(Op::BindResp(res, None)),
        Op::ModifyReq { .. } => one(Op::ModifyResp(res)),
        Op::AddReq { .. } => one(Op::AddResp(res)),
        Op::DelReq(_) => one(Op::DelResp(res)),
        Op::ModDnReq { .. } => one(Op::ModDnResp(res)),
        Op::CompareReq { .. } => one(Op::CompareResp(res)),
        Op::ExtReq { name, .. } => one(Op::ExtResp(res, Some(name.clone()), Some(b"v".to_vec()))),
        Op::SearchReq { .. } if paging_of(m).is_some() => {
            // a paged search: three entries in total, `size` per page, the cookie is the offset
            let (size, cookie) = paging_of(m).unwrap();
            let total = 3usize;
            let off: usize = String::from_utf8_lossy(&cookie).parse().unwrap_or(0);
            let hi = (off + (size.max(1) as usize)).min(total);
            let mut v = vec![];
            if rc == 0 {
                for j in off..hi {
                    v.extend(Msg { id: m.id, op: Op::SearchEntry { dn: format!("{}#{}", marker, j).into_bytes(), attrs: vec![] }, controls: None }.encode());
                }
            }
            let next: Vec<u8> = if rc == 0 && hi < total { hi.to_string().into_bytes() } else { vec![] };
            let pr = Ctl { oid: b"1.2.840.113556.1.4.319".to_vec(), crit: None, val: Some(ber::encode(&ber::Tlv::seq(vec![ber::Tlv::int(0), ber::Tlv::octets(next)]))) };
            v.extend(Msg { id: m.id, op: Op::SearchDone(res), controls: Some(vec![pr]) }.encode());
            v
        }
        Op::SearchReq { .. } => {
            let mut v = vec![];
            if rc == 0 {
                for j in 0..entries {
                    v.extend(
                        Msg {
                            id: m.id,
                            op: Op::SearchEntry { dn: format!("{}#{}", marker, j).into_bytes(), attrs: vec![(b"cn".to_vec(), vec![b"v".to_vec()])] },
                            controls: None,
                        }
                        .encode(),
                    );
                    if j == 0 {
                        v.extend(Msg { id: m.id, op: Op::SearchRef(vec![format!("ldap://{}", marker).into_bytes()]), controls: None }.encode());
                        v.extend(Msg { id: m.id, op: Op::Intermediate { name: Some(b"1.2".to_vec()), val: None }, controls: None }.encode());
                    }
                }
            }
            v.extend(one(Op::SearchDone(res)));
            v
        }
        Op::UnbindReq => return (vec![], true),
        _ => vec![],
    };
    (out, false)
}

/// (size, cookie) of the request's paged-results control, if any
pub fn paging_of(m: &Msg) -> Option<(i64, Vec<u8>)> {
    let c = m.controls.as_ref()?.iter().find(|c| c.oid == b"1.2.840.113556.1.4.319")?;
    let t = ber::decode_all(c.val.as_ref()?).ok()?;
    let v = t.as_cons()?;
    Some((ber::int_value(v.first()?.as_prim()?)? as i64, v.get(1)?.as_prim()?.to_vec()))
}

pub struct Rig {
    pub rt: tokio::runtime::Runtime,
    pub ldap: Ldap,
    pub conn: Option<LdapConnAsync>,
    pub io: Arc<Mutex<IoInner>>,
    pub log: Arc<Mutex<ServerLog>>,
}

impl Rig {
    /// `policy` decides the behaviour for each decoded request.
    pub fn new(policy: impl Fn(&Msg) -> (Behave, usize) + Send + 'static) -> Rig {
        let rt = tokio::runtime::Builder::new_current_thread().enable_time().start_paused(true).build().unwrap();
        let (mem, io) = MemIo::new();
        let log = Arc::new(Mutex::new(ServerLog::default()));
        let l2 = log.clone();
        io.lock().unwrap().reactor = Some(Reactor(Box::new(move |all: &[u8]| {
            let mut log = l2.lock().unwrap();
            let mut out = vec![];
            let mut eof = false;
            let fresh = &all[log.parsed..];
            match msg::split_frames(fresh) {
                Ok((frames, used)) => {
                    let mut pos = 0;
                    for f in frames {
                        let enc_len = ber::encode(&f).len();
                        let _ = enc_len;
                        let mut notes = vec![];
                        let r = Msg::from_tlv(&f, &mut notes);
                        log.notes.extend(notes);
                        if let Ok(m) = &r {
                            let (b, n) = policy(m);
                            let (bytes, close) = respond(m, b, n);
                            out.extend(bytes);
                            eof |= close;
                        }
                        log.reqs.push(r);
                        // raw bytes of this frame
                        let (_, n) = ber::decode_one(&fresh[pos..]).map(|(t, n)| (t, n)).unwrap_or((f.clone(), 0));
                        log.raw.push(fresh[pos..pos + n].to_vec());
                        pos += n;
                    }
                    log.parsed += used;
                }
                Err(e) => {
                    log.reqs.push(Err(format!("not BER: {}", e)));
                    log.parsed = all.len();
                }
            }
            (out, eof)
        })));
        let (conn, ldap) = LdapConnAsync::verif_pair(Box::new(mem));
        Rig { rt, ldap, conn: Some(conn), io, log }
    }

    /// spawn the driver on the rig's runtime (call once, before the first operation)
    pub fn spawn_driver(&mut self) {
        let conn = self.conn.take().expect("driver already spawned");
        self.rt.spawn(async move {
            let _ = conn.drive().await;
        });
    }

    pub fn requests(&self) -> Vec<Result<Msg, String>> {
        self.log.lock().unwrap().reqs.clone()
    }

    pub fn wire(&self) -> Vec<u8> {
        self.io.lock().unwrap().out.clone()
    }
}
