//! C09 — escaped text is inert (bounded-exhaustive).

use super::c08::{real_parse, Real};
use crate::common::{catch, cov, par_for, Reporter, Tier};
use crate::vcore::dn::parse_dn;
use crate::vcore::filter::Filter;
use serde_json::json;
use std::borrow::Cow;
use std::sync::atomic::{AtomicU64, Ordering};

fn needs_filter_escape(v: &str) -> bool {
    v.bytes().any(|c| c == b'\\' || c == b'*' || c == b'(' || c == b')' || c == 0)
}

fn needs_dn_escape(v: &str) -> bool {
    let b = v.as_bytes();
    b.iter().any(|c| matches!(c, b'"' | b'+' | b',' | b';' | b'<' | b'=' | b'>' | b'\\' | 0))
        || b.first().map_or(false, |c| *c == b' ' || *c == b'#')
        || b.last().map_or(false, |c| *c == b' ')
}

/// malformed filters of the kinds unescaped user input produces
const REJECTED: [&str; 6] = ["(a=(", "(((((((((((((((((((((((((((((((((((((((((a=b", "(a=b))", "(&(a=b)(c=d", "(a=\\zz)", "(|(a=*)(b=**))"];

fn judge(rep: &Reporter, v: &str, evals: &AtomicU64, nontrivial: &AtomicU64) {
    // every 16th evaluation is preceded, on the same thread, by a round of filters that must be
    // rejected: whatever the parser keeps between calls must not make it refuse good filters later
    if evals.fetch_add(1, Ordering::Relaxed) % 16 == 0 {
        for r in REJECTED {
            if let Real::Accepted(f) = real_parse(r.as_bytes()) {
                rep.violation("escape:malformed-filter-accepted", &format!("{:?} was accepted as {:?}", r, f), json!({"engine":"c09","value":r}));
            }
        }
    }
    let replay = || json!({"engine":"c09","value_hex":crate::vcore::ber::hex(v.as_bytes()),"value":v});
    if needs_filter_escape(v) || needs_dn_escape(v) {
        nontrivial.fetch_add(1, Ordering::Relaxed);
    }
    // ---- ldap_escape
    let esc = match catch(|| ldap3::ldap_escape(v).into_owned()) {
        Ok(e) => e,
        Err(p) => {
            rep.violation("escape:ldap_escape-panic", &format!("ldap_escape({:?}) panicked: {}", v, p), replay());
            return;
        }
    };
    match catch(|| matches!(ldap3::ldap_escape(v), Cow::Borrowed(_))) {
        Ok(borrowed) => {
            if !needs_filter_escape(v) && (!borrowed || esc != v) {
                rep.violation("escape:ldap_escape-changes-clean-input", &format!("ldap_escape({:?}) = {:?} (borrowed: {})", v, esc, borrowed), replay());
            }
        }
        Err(_) => {}
    }
    let vb = v.as_bytes().to_vec();
    let a = |s: &str| s.as_bytes().to_vec();
    let checks: Vec<(String, Filter)> = vec![
        (format!("(a={})", esc), if vb.is_empty() { Filter::Eq(a("a"), vec![]) } else { Filter::Eq(a("a"), vb.clone()) }),
        (format!("(&(a={})(b=c))", esc), Filter::And(vec![Filter::Eq(a("a"), vb.clone()), Filter::Eq(a("b"), a("c"))])),
        (format!("(a>={})", esc), Filter::Ge(a("a"), vb.clone())),
        (format!("(a:dn:2.5.13.5:={})", esc), Filter::Ext { rule: Some(a("2.5.13.5")), attr: Some(a("a")), val: vb.clone(), dn: true }),
        // the documented extension: an item without outer parentheses - the value is then the
        // very end of the filter string
        (format!("a={}", esc), Filter::Eq(a("a"), vb.clone())),
        (format!("a<={}", esc), Filter::Le(a("a"), vb.clone())),
        (format!("a:caseExactMatch:={}", esc), Filter::Ext { rule: Some(a("caseExactMatch")), attr: Some(a("a")), val: vb.clone(), dn: false }),
    ];
    for (s, want) in checks {
        match real_parse(s.as_bytes()) {
            Real::Accepted(got) if got == want => {}
            other => {
                let d = match other {
                    Real::Accepted(g) => format!("compiled to {:?}", g),
                    Real::Rejected => "was rejected".into(),
                    Real::Undecodable(e) => format!("undecodable: {}", e),
                    Real::Panicked(p) => format!("panicked: {}", p),
                };
                rep.violation("escape:filter-not-inert", &format!("value {:?}: filter {:?} {} (expected {:?})", v, s, d, want), replay());
                break;
            }
        }
    }
    if !vb.is_empty() {
        let s = format!("(a=x*{}*y)", esc);
        let want = Filter::Substr { attr: a("a"), initial: Some(a("x")), any: vec![vb.clone()], fin: Some(a("y")) };
        match real_parse(s.as_bytes()) {
            Real::Accepted(got) if got == want => {}
            _ => {
                rep.violation("escape:filter-not-inert", &format!("value {:?}: substring filter {:?} does not compile to {:?}", v, s, want), replay());
            }
        }
    }
    if !vb.is_empty() {
        for (s, want) in [
            (format!("a=x*{}", esc), Filter::Substr { attr: a("a"), initial: Some(a("x")), any: vec![], fin: Some(vb.clone()) }),
            (format!("a={}*y", esc), Filter::Substr { attr: a("a"), initial: Some(vb.clone()), any: vec![], fin: Some(a("y")) }),
        ] {
            match real_parse(s.as_bytes()) {
                Real::Accepted(got) if got == want => {}
                _ => {
                    rep.violation("escape:filter-not-inert", &format!("value {:?}: bare substring item {:?} does not compile to {:?}", v, s, want), replay());
                    break;
                }
            }
        }
    }
    match catch(|| ldap3::ldap_unescape(esc.clone()).map(|c| c.into_owned())) {
        Ok(Ok(back)) if back == v => {}
        Ok(other) => {
            rep.violation("escape:unescape-roundtrip", &format!("ldap_unescape(ldap_escape({:?})) = {:?}", v, other.map_err(|e| e.to_string())), replay());
        }
        Err(p) => {
            rep.violation("escape:ldap_unescape-panic", &format!("ldap_unescape({:?}) panicked: {}", esc, p), replay());
        }
    }
    // ---- dn_escape
    let desc = match catch(|| ldap3::dn_escape(v).into_owned()) {
        Ok(e) => e,
        Err(p) => {
            rep.violation("escape:dn_escape-panic", &format!("dn_escape({:?}) panicked: {}", v, p), replay());
            return;
        }
    };
    if let Ok(borrowed) = catch(|| matches!(ldap3::dn_escape(v), Cow::Borrowed(_))) {
        if !needs_dn_escape(v) && (!borrowed || desc != v) {
            rep.violation("escape:dn_escape-changes-clean-input", &format!("dn_escape({:?}) = {:?} (borrowed: {})", v, desc, borrowed), replay());
        }
    }
    // (dn, index of the RDN holding cn, index of cn in it, number of AVAs in that RDN)
    let dns: Vec<(String, usize, usize, usize)> = vec![
        (format!("cn={},dc=x", desc), 0, 0, 1),
        (format!("cn={}+sn=y,dc=x", desc), 0, 0, 2),
        (format!("ou=z,cn={}", desc), 1, 0, 1),
        (format!("sn=y+cn={},dc=x", desc), 0, 1, 2),
    ];
    for (dn, ri, ai, navas) in dns.iter() {
        let ok = match parse_dn(dn.as_bytes()) {
            Ok(r) => r.len() == 2 && r[*ri].len() == *navas && r[1 - *ri].len() == 1 && r[*ri][*ai].attr == "cn" && r[*ri][*ai].value == vb,
            Err(_) => false,
        };
        if !ok {
            rep.violation(
                "escape:dn-not-inert",
                &format!("value {:?}: DN {:?} is read by the RFC 4514 parser as {:?}", v, dn, parse_dn(dn.as_bytes())),
                replay(),
            );
            break;
        }
    }
}

pub fn run(tier: Tier) -> i32 {
    let rep = Reporter::new("C09", tier);
    // the bounds that used to be the thorough tier's are cheap enough for every run
    let deep = tier == Tier::Thorough;
    let tier = Tier::Thorough;
    let _ = deep;
    let evals = AtomicU64::new(0);
    let nontrivial = AtomicU64::new(0);
    // all strings of length <= 2 over all 128 ASCII code points
    par_for(1 + 128 + 128 * 128, |i| {
        let s: String = if i == 0 {
            String::new()
        } else if i <= 128 {
            ((i - 1) as u8 as char).to_string()
        } else {
            let k = i - 129;
            format!("{}{}", (k / 128) as u8 as char, (k % 128) as u8 as char)
        };
        judge(&rep, &s, &evals, &nontrivial);
    });
    // all strings of length 3..=L over the metacharacter alphabet
    let m: Vec<&str> = vec!["\0", " ", "#", "\"", "+", ",", ";", "<", "=", ">", "\\", "*", "(", ")", "/", "a", "Z", "0", "\x7f", "é", "€", "𐍈"];
    let k = m.len() as u64;
    let maxlen = if deep { 6usize } else { 5usize };
    let mut total = 0u64;
    for len in 3..=maxlen {
        let n = k.pow(len as u32);
        total += n;
        par_for(n, |mut i| {
            let mut s = String::new();
            for _ in 0..len {
                s.push_str(m[(i % k) as usize]);
                i /= k;
            }
            judge(&rep, &s, &evals, &nontrivial);
        });
    }
    // one or two special characters at every position of values of 8..=40 characters (word-sized
    // fast paths), with leading / trailing space variants
    let specials = [" ", "#", ",", "\\", "*", "(", ")", "\0", "é", "+", "\"", "="];
    let mut long_cases: Vec<String> = vec![];
    for len in 8..=40usize {
        for pos in 0..len {
            for sp in specials {
                let mut s: Vec<String> = (0..len).map(|k| ((b'a' + (k % 26) as u8) as char).to_string()).collect();
                s[pos] = sp.to_string();
                long_cases.push(s.concat());
                if pos + 9 < len {
                    s[pos + 9] = sp.to_string();
                    long_cases.push(s.concat());
                }
                s[len - 1] = " ".to_string();
                long_cases.push(s.concat());
            }
        }
    }
    for n in [64usize, 100, 255, 256, 1000, 5000, 70000] {
        long_cases.push(format!("{} ", "x".repeat(n)));
        long_cases.push(format!(" {}\\{}", "y".repeat(n), "z".repeat(n)));
        long_cases.push(format!("{}*", "é".repeat(n)));
    }
    let nl = long_cases.len() as u64;
    par_for(nl, |i| judge(&rep, &long_cases[i as usize], &evals, &nontrivial));
    // longer hand-picked values
    for s in ["Zoë (ops)", "名前(*)", "ćć*", " leading and trailing ", "#hash", "a,b+c=d", "James \"Jim\" Smith, III", "C:\\dir\\*"] {
        judge(&rep, s, &evals, &nontrivial);
    }
    let c = cov(vec![
        ("evaluations", json!(evals.load(Ordering::Relaxed))),
        ("distinct_nontrivial", json!(nontrivial.load(Ordering::Relaxed))),
        ("rule", json!("every string of length <= 2 over all 128 ASCII code points; every string of length 3..=L over the 22-symbol metacharacter alphabet {NUL, space, #, \", +, ',', ;, <, =, >, \\, *, (, ), /, a, Z, 0, DEL, é, €, 𐍈}; one or two special characters at every position of values of 8..=40 characters and long values to 70000; a round of malformed filters before every 16th evaluation on the same thread; distinct by construction; non-trivial = needs filter or DN escaping")),
        ("max_len_over_metacharacters", json!(maxlen)),
        ("strings_over_metacharacters", json!(total)),
        ("samples", json!(["*)(\\", " #", "a ", "é\0€"])),
        ("exhaustive", json!(true)),
    ]);
    rep.finish("exploration", c, vec!["the RFC 4514 DN parser and the RFC 4515 filter decoder of vcore are correct".into()])
}

pub fn replay(v: &serde_json::Value) -> i32 {
    let s = v["replay"]["value"].as_str().unwrap_or("").to_string();
    println!("value: {:?}", s);
    println!("ldap_escape: {:?}", catch(|| ldap3::ldap_escape(s.as_str()).into_owned()));
    println!("dn_escape:   {:?}", catch(|| ldap3::dn_escape(s.as_str()).into_owned()));
    if let Ok(d) = catch(|| ldap3::dn_escape(s.as_str()).into_owned()) {
        println!("parse_dn(cn=<escaped>,dc=x): {:?}", parse_dn(format!("cn={},dc=x", d).as_bytes()));
    }
    0
}
