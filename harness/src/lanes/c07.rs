//! C07 — BER encode/parse are mutual inverses, encoding canonical (bounded-exhaustive).

use crate::common::{catch, cov, par_for, Reporter, Tier};
use crate::vcore::ber::{self, Body, LenForm, Tlv};
use bytes::BytesMut;
use lber::common::TagClass;
use lber::structures::{ASNTag, Boolean, Enumerated, ExplicitTag, Integer, Null, OctetString, Sequence, Set, Tag};
use serde_json::json;
use std::sync::atomic::{AtomicU64, Ordering};

fn lber_encode(t: &Tlv) -> Result<Vec<u8>, String> {
    catch(|| {
        let mut b = BytesMut::new();
        lber::write::encode_into(&mut b, ber::to_lber(t)).expect("encode_into");
        b.to_vec()
    })
}

/// Some(Ok((consumed, tree))) | Some(Err(kind)) ; None on panic
fn lber_parse(b: &[u8]) -> Result<Result<(usize, Tlv), String>, String> {
    catch(|| match lber::parse::parse_tag(b) {
        Ok((rest, t)) => Ok((b.len() - rest.len(), ber::from_lber(&t))),
        Err(e) => Err(if e.is_incomplete() { "incomplete".to_string() } else { "error".to_string() }),
    })
}

const TAGS: [u32; 8] = [0, 1, 2, 4, 10, 16, 17, 30];
const PAYLOADS: [&[u8]; 5] = [&[], &[0x00], &[0x7f], &[0x80], &[0xff, 0x00]];
const TRAILERS: [&[u8]; 3] = [&[], &[0x00], &[0x30, 0x80]];

fn level1_full() -> Vec<Tlv> {
    let mut v = vec![];
    for c in 0..4u8 {
        for t in TAGS {
            for p in PAYLOADS {
                v.push(Tlv::prim(c, t, p.to_vec()));
            }
            v.push(Tlv::cons(c, t, vec![]));
        }
    }
    v
}

fn level1_reduced() -> Vec<Tlv> {
    let mut v = vec![];
    for c in [0u8, 2] {
        for t in [0u32, 4, 30] {
            for p in [&[][..], &[0x7f], &[0xff, 0x00]] {
                v.push(Tlv::prim(c, t, p.to_vec()));
            }
            v.push(Tlv::cons(c, t, vec![]));
        }
    }
    v
}

fn check_tree(rep: &Reporter, t: &Tlv, evals: &AtomicU64) {
    evals.fetch_add(1, Ordering::Relaxed);
    let want = ber::encode(t);
    let got = match lber_encode(t) {
        Ok(g) => g,
        Err(p) => {
            rep.violation("encode:panic", &format!("encoding {:?} panicked: {}", t, p), json!({"engine":"c07","tree":format!("{:?}",t)}));
            return;
        }
    };
    if got != want {
        rep.violation(
            "encode:not-canonical",
            &format!("encoder output {} differs from the minimal definite form {} for {:?}", ber::hex(&got), ber::hex(&want), t),
            json!({"engine":"c07","case":"tree","hex":ber::hex(&want)}),
        );
        return;
    }
    for tr in TRAILERS {
        let mut b = got.clone();
        b.extend_from_slice(tr);
        match lber_parse(&b) {
            Ok(Ok((n, back))) => {
                if n != got.len() || back != *t {
                    rep.violation(
                        "parse:roundtrip",
                        &format!("parse(encode(t) ‖ {}) consumed {} of {} and returned {:?} for t = {:?}", ber::hex(tr), n, got.len(), back, t),
                        json!({"engine":"c07","case":"parse","hex":ber::hex(&b)}),
                    );
                }
            }
            Ok(Err(k)) => {
                rep.violation("parse:rejects-own-output", &format!("parser returned {} on {}", k, ber::hex(&b)), json!({"engine":"c07","case":"parse","hex":ber::hex(&b)}));
            }
            Err(p) => {
                rep.violation("parse:panic", &format!("parser panicked on {}: {}", ber::hex(&b), p), json!({"engine":"c07","case":"parse","hex":ber::hex(&b)}));
            }
        }
    }
}

fn check_forms(rep: &Reporter, t: &Tlv, forms: &[LenForm], evals: &AtomicU64, nonmin: &AtomicU64) {
    let n = t.nodes();
    let total = forms.len().pow(n as u32);
    for code in 0..total {
        let mut c = code;
        let mut choice = vec![];
        for _ in 0..n {
            choice.push(forms[c % forms.len()]);
            c /= forms.len();
        }
        let b = ber::encode_forms(t, &mut |k| choice[k]);
        evals.fetch_add(1, Ordering::Relaxed);
        if code != 0 {
            nonmin.fetch_add(1, Ordering::Relaxed);
        }
        // the reference decoder must read it back as t (self-check of the reference)
        match ber::decode_all(&b) {
            Ok(r) if r == *t => {}
            other => panic!("reference decoder disagrees with reference encoder: {:?} on {}", other, ber::hex(&b)),
        }
        match lber_parse(&b) {
            Ok(Ok((used, back))) if used == b.len() && back == *t => {}
            Ok(Ok((used, back))) => {
                rep.violation(
                    "parse:nonminimal-wrong-tree",
                    &format!("valid BER {} parsed to {:?} (consumed {}), the independent decoder reads {:?}", ber::hex(&b), back, used, t),
                    json!({"engine":"c07","case":"parse","hex":ber::hex(&b)}),
                );
            }
            Ok(Err(k)) => {
                let zero = matches!(&t.body, Body::Prim(v) if v.is_empty());
                let _ = zero;
                rep.violation(
                    "parse:nonminimal-rejected",
                    &format!("valid definite-length BER {} was rejected ({})", ber::hex(&b), k),
                    json!({"engine":"c07","case":"parse","hex":ber::hex(&b)}),
                );
            }
            Err(p) => {
                rep.violation("parse:panic", &format!("parser panicked on {}: {}", ber::hex(&b), p), json!({"engine":"c07","case":"parse","hex":ber::hex(&b)}));
            }
        }
    }
}

fn int_values(tier: Tier, deep: bool) -> Vec<i64> {
    let mut v: Vec<i64> = vec![];
    let r = if deep { 12_000_000i64 } else { tier.pick(70_000i64, 1_100_000i64) };
    v.extend(-r..=r);
    for k in 0..=63u32 {
        let p: i128 = 1i128 << k;
        for d in -2i128..=2 {
            for s in [1i128, -1] {
                let x = s * p + d;
                if x >= i64::MIN as i128 && x <= i64::MAX as i128 {
                    v.push(x as i64);
                }
            }
        }
    }
    v.push(i64::MIN);
    v.push(i64::MAX);
    v.push(i64::MIN + 1);
    v.push(i64::MAX - 1);
    v.sort();
    v.dedup();
    v
}

fn int_class(v: i64) -> String {
    let n = ber::int_content(v).len();
    format!("{}{}", if v < 0 { "negative" } else { "non-negative" }, n)
}

pub fn run(tier: Tier) -> i32 {
    let rep = Reporter::new("C07", tier);
    // the bounds that used to be the thorough tier's are cheap enough for every run
    let deep = tier == Tier::Thorough;
    let tier = Tier::Thorough;
    let _ = deep;
    let evals = AtomicU64::new(0);
    let nonmin = AtomicU64::new(0);
    let distinct = AtomicU64::new(0);

    // ---- a. trees
    let l1 = level1_full();
    let l1r = level1_reduced();
    // depth <= 2, width <= 2, full alphabet at both levels
    let heads: Vec<(u8, u32)> = (0..4u8).flat_map(|c| TAGS.iter().map(move |t| (c, *t))).collect();
    let n1 = l1.len() as u64;
    let per_head = 1 + n1 + n1 * n1;
    par_for(heads.len() as u64 * per_head, |i| {
        let (c, t) = heads[(i / per_head) as usize];
        let k = i % per_head;
        let kids = if k == 0 {
            vec![]
        } else if k <= n1 {
            vec![l1[(k - 1) as usize].clone()]
        } else {
            let k = k - 1 - n1;
            vec![l1[(k / n1) as usize].clone(), l1[(k % n1) as usize].clone()]
        };
        check_tree(&rep, &Tlv::cons(c, t, kids), &evals);
        distinct.fetch_add(1, Ordering::Relaxed);
    });
    for t in &l1 {
        check_tree(&rep, t, &evals);
        distinct.fetch_add(1, Ordering::Relaxed);
    }
    // depth 3: level-2 nodes over the reduced alphabet
    let mut l2: Vec<Tlv> = l1r.clone();
    for c in [0u8, 2] {
        for t in [16u32, 0, 30] {
            for a in 0..l1r.len() {
                l2.push(Tlv::cons(c, t, vec![l1r[a].clone()]));
                for b in 0..l1r.len() {
                    l2.push(Tlv::cons(c, t, vec![l1r[a].clone(), l1r[b].clone()]));
                }
            }
        }
    }
    let n2 = l2.len() as u64;
    let pairs = tier.pick(60u64, 400u64).min(n2);
    let per_head3 = n2 + pairs * pairs;
    par_for(heads.len() as u64 * per_head3, |i| {
        let (c, t) = heads[(i / per_head3) as usize];
        let k = i % per_head3;
        let kids = if k < n2 {
            vec![l2[k as usize].clone()]
        } else {
            let k = k - n2;
            // spread the pair members over the whole level-2 list
            let a = (k / pairs) * (n2 / pairs);
            let b = (k % pairs) * (n2 / pairs) + (n2 / pairs) / 2;
            vec![l2[a as usize].clone(), l2[(b % n2) as usize].clone()]
        };
        check_tree(&rep, &Tlv::cons(c, t, kids), &evals);
        distinct.fetch_add(1, Ordering::Relaxed);
    });

    // ---- a''. shapes with many constructed elements: wide, comb-like and deep (the parser's
    // nesting limit is 64 levels; chains up to that depth must round-trip)
    let mut shapes: Vec<Tlv> = vec![];
    for n in (0..=140usize).chain([255, 256, 300]) {
        shapes.push(Tlv::seq((0..n).map(|_| Tlv::seq(vec![])).collect()));
        shapes.push(Tlv::seq((0..n).map(|k| Tlv::seq(vec![Tlv::int(k as i64)])).collect()));
        shapes.push(Tlv::cons(1, 4, vec![Tlv::octets(b"cn=x".to_vec()), Tlv::seq((0..n).map(|k| Tlv::seq(vec![Tlv::octets(vec![k as u8]), Tlv::set(vec![Tlv::octets(vec![1])])])).collect())]));
    }
    for depth in 1..=63usize {
        // a chain of `depth` constructed elements with a leaf, plus a sibling chain next to it
        let mut t = Tlv::int(7);
        for d in 0..depth {
            t = Tlv::cons((d % 3) as u8, (d % 31) as u32, vec![t]);
        }
        shapes.push(t.clone());
        shapes.push(Tlv::seq(vec![t.clone(), t]));
    }
    for t in &shapes {
        check_tree(&rep, t, &evals);
        distinct.fetch_add(1, Ordering::Relaxed);
    }

    // ---- a'. typed wrappers
    let mut wrappers = 0u64;
    for c in 0..4u8 {
        let class = TagClass::from_u8(c).unwrap();
        for id in TAGS {
            let id64 = id as u64;
            let cases: Vec<(Tag, Tlv)> = vec![
                (Tag::Boolean(Boolean { id: id64, class, inner: true }), Tlv::prim(c, id, vec![0xff])),
                (Tag::Boolean(Boolean { id: id64, class, inner: false }), Tlv::prim(c, id, vec![0x00])),
                (Tag::Null(Null { id: id64, class, inner: () }), Tlv::prim(c, id, vec![])),
                (Tag::OctetString(OctetString { id: id64, class, inner: vec![1, 2, 3] }), Tlv::prim(c, id, vec![1, 2, 3])),
                (Tag::OctetString(OctetString { id: id64, class, inner: vec![] }), Tlv::prim(c, id, vec![])),
                (
                    Tag::Sequence(Sequence { id: id64, class, inner: vec![Tag::Null(Null::default()), Tag::Boolean(Boolean::default())] }),
                    Tlv::cons(c, id, vec![Tlv::prim(0, 5, vec![]), Tlv::prim(0, 1, vec![0])]),
                ),
                (
                    Tag::Set(Set { id: id64, class, inner: vec![Tag::OctetString(OctetString { inner: vec![9], ..Default::default() })] }),
                    Tlv::cons(c, id, vec![Tlv::octets(vec![9])]),
                ),
                // equal children next to each other and apart: a tree is a list, nothing may be merged or reordered
                (
                    Tag::Set(Set { id: id64, class, inner: vec![Tag::OctetString(OctetString { inner: vec![9], ..Default::default() }), Tag::OctetString(OctetString { inner: vec![9], ..Default::default() }), Tag::Null(Null::default()), Tag::OctetString(OctetString { inner: vec![9], ..Default::default() })] }),
                    Tlv::cons(c, id, vec![Tlv::octets(vec![9]), Tlv::octets(vec![9]), Tlv::prim(0, 5, vec![]), Tlv::octets(vec![9])]),
                ),
                (
                    Tag::Sequence(Sequence { id: id64, class, inner: vec![Tag::Integer(Integer { inner: 2, ..Default::default() }), Tag::Integer(Integer { inner: 2, ..Default::default() }), Tag::Integer(Integer { inner: 1, ..Default::default() })] }),
                    Tlv::cons(c, id, vec![Tlv::int(2), Tlv::int(2), Tlv::int(1)]),
                ),
                (Tag::Set(Set { id: id64, class, inner: vec![] }), Tlv::cons(c, id, vec![])),
                (
                    Tag::StructureTag(lber::structures::SequenceOf::<OctetString> { id: id64, class, inner: vec![OctetString { inner: vec![7], ..Default::default() }, OctetString { inner: vec![7], ..Default::default() }, OctetString { inner: vec![], ..Default::default() }] }.into_structure()),
                    Tlv::cons(c, id, vec![Tlv::octets(vec![7]), Tlv::octets(vec![7]), Tlv::octets(vec![])]),
                ),
                (
                    Tag::StructureTag(lber::structures::SetOf::<Integer> { id: id64, class, inner: vec![Integer { inner: 3, ..Default::default() }, Integer { inner: 3, ..Default::default() }, Integer { inner: -1, ..Default::default() }] }.into_structure()),
                    Tlv::cons(c, id, vec![Tlv::int(3), Tlv::int(3), Tlv::int(-1)]),
                ),
                (
                    Tag::ExplicitTag(ExplicitTag { id: id64, class, inner: Box::new(Tag::Integer(Integer { inner: 5, ..Default::default() })) }),
                    Tlv::cons(c, id, vec![Tlv::int(5)]),
                ),
                (Tag::Integer(Integer { id: id64, class, inner: 300 }), Tlv::prim(c, id, vec![1, 0x2c])),
                (Tag::Enumerated(Enumerated { id: id64, class, inner: 0 }), Tlv::prim(c, id, vec![0])),
            ];
            for (tag, want) in cases {
                wrappers += 1;
                evals.fetch_add(1, Ordering::Relaxed);
                match catch(|| ber::from_lber(&tag.clone().into_structure())) {
                    Ok(got) if got == want => {}
                    Ok(got) => {
                        rep.violation("wrapper:structure", &format!("{:?}.into_structure() = {:?}, expected {:?}", tag, got, want), json!({"engine":"c07","case":"wrapper"}));
                    }
                    Err(p) => {
                        rep.violation("wrapper:panic", &format!("{:?}.into_structure() panicked: {}", tag, p), json!({"engine":"c07","case":"wrapper"}));
                    }
                }
            }
        }
    }
    // Sequence/Set defaults are universal 16 / 17, OctetString 4, Boolean 1, Null 5, Integer 2, Enumerated 10
    let defaults: Vec<(Tag, (u8, u32))> = vec![
        (Tag::Sequence(Sequence::default()), (0, 16)),
        (Tag::Set(Set::default()), (0, 17)),
        (Tag::StructureTag(lber::structures::SequenceOf::<Null>::default().into_structure()), (0, 16)),
        (Tag::StructureTag(lber::structures::SetOf::<Null>::default().into_structure()), (0, 17)),
        (Tag::OctetString(OctetString::default()), (0, 4)),
        (Tag::Boolean(Boolean::default()), (0, 1)),
        (Tag::Null(Null::default()), (0, 5)),
        (Tag::Integer(Integer::default()), (0, 2)),
        (Tag::Enumerated(Enumerated::default()), (0, 10)),
    ];
    for (tag, (c, t)) in defaults {
        let got = ber::from_lber(&tag.clone().into_structure());
        if (got.class, got.tag) != (c, t) {
            rep.violation("wrapper:default-tag", &format!("{:?} has default tag [{} {}]", tag, got.class, got.tag), json!({"engine":"c07","case":"wrapper"}));
        }
    }

    // ---- a''. one lber::Parser instance across a stream of elements, the way a connection uses it:
    // an element that arrives in pieces (every prefix length tried first), then the next ones
    let mut parser_reuse = 0u64;
    {
        let elems: Vec<Tlv> = vec![
            Tlv::octets(vec![0x55; 300]),
            Tlv::prim(0, 5, vec![]),
            Tlv::seq(vec![Tlv::int(1), Tlv::octets(vec![7; 130])]),
            Tlv::int(-129),
            Tlv::seq(vec![]),
            Tlv::octets(vec![1; 70_000]),
            Tlv::prim(2, 3, vec![9]),
        ];
        for first in 0..elems.len() {
            for second in 0..elems.len() {
                let a = ber::encode(&elems[first]);
                let b = ber::encode(&elems[second]);
                let cuts: Vec<usize> = (1..a.len()).filter(|k| *k < 8 || *k % 97 == 0 || *k + 3 > a.len()).collect();
                for cut in cuts.iter().copied().chain(std::iter::once(0)) {
                    parser_reuse += 1;
                    evals.fetch_add(1, Ordering::Relaxed);
                    let (a2, b2, want_a, want_b) = (a.clone(), b.clone(), elems[first].clone(), elems[second].clone());
                    let r = catch(move || {
                        let mut p = lber::parse::Parser::new();
                        if cut > 0 {
                            match p.parse(&a2[..cut]) {
                                Err(lber::Err::Incomplete(_)) => {}
                                other => return Err(format!("a {}-octet prefix of a {}-octet element gave {:?}", cut, a2.len(), other.map(|x| x.0.len()))),
                            }
                        }
                        // the whole first element followed by the second in one buffer
                        let mut both = a2.clone();
                        both.extend_from_slice(&b2);
                        match p.parse(&both) {
                            Ok((rest, t)) if rest.len() == b2.len() && ber::from_lber(&t) == want_a => {}
                            other => return Err(format!("first element ({} octets, after a {}-octet attempt): {:?}", a2.len(), cut, other.map(|x| x.0.len()))),
                        }
                        match p.parse(&b2) {
                            Ok((rest, t)) if rest.is_empty() && ber::from_lber(&t) == want_b => Ok(()),
                            other => Err(format!("second element ({} octets) after a first of {} octets (tried at {} octets first): {:?}", b2.len(), a2.len(), cut, other.map(|x| x.0.len()))),
                        }
                    });
                    match r {
                        Ok(Ok(())) => {}
                        Ok(Err(e)) => {
                            rep.violation("parse:parser-reuse", &e, json!({"engine":"c07","case":"parser-reuse","first":first,"second":second,"cut":cut}));
                        }
                        Err(p) => {
                            rep.violation("parse:panic", &format!("Parser reuse panicked: {}", p), json!({"engine":"c07","case":"parser-reuse"}));
                        }
                    }
                }
            }
        }
    }

    // ---- b. lengths across the form boundaries
    let mut sizes: Vec<usize> = (0..=130).collect();
    sizes.extend(254..=258);
    sizes.extend(65534..=65538);
    sizes.extend((1 << 24) - 2..=(1 << 24) + 2);
    let mut len_cases = 0u64;
    for &n in &sizes {
        for as_child in [false, true] {
            let leaf = Tlv::octets(vec![0xab; n]);
            let t = if as_child { Tlv::seq(vec![leaf]) } else { leaf };
            len_cases += 1;
            evals.fetch_add(1, Ordering::Relaxed);
            let want = ber::encode(&t);
            match lber_encode(&t) {
                Ok(got) => {
                    let hdr = want.len() - if as_child { ber::encode(&Tlv::octets(vec![0xab; n])).len() } else { n };
                    if got.len() != want.len() || got[..hdr.min(got.len())] != want[..hdr] {
                        rep.violation(
                            "encode:length-form",
                            &format!("content length {} ({}): header {} != minimal {}", n, if as_child { "constructed parent" } else { "primitive" }, ber::hex(&got[..8.min(got.len())]), ber::hex(&want[..hdr])),
                            json!({"engine":"c07","case":"length","size":n,"as_child":as_child}),
                        );
                    } else if got != want {
                        rep.violation("encode:length-body", &format!("content length {}: body differs", n), json!({"engine":"c07","case":"length","size":n,"as_child":as_child}));
                    } else {
                        match lber_parse(&got) {
                            Ok(Ok((used, back))) if used == got.len() && back == t => {}
                            other => {
                                rep.violation("parse:length-roundtrip", &format!("content length {}: parse gave {:?}", n, other.map(|r| r.map(|x| x.0))), json!({"engine":"c07","case":"length","size":n,"as_child":as_child}));
                            }
                        }
                    }
                }
                Err(p) => {
                    rep.violation("encode:panic", &format!("content length {}: {}", n, p), json!({"engine":"c07","case":"length","size":n}));
                }
            }
        }
    }

    // ---- c. integers
    let ints = int_values(tier, deep);
    let int_classes = std::sync::Mutex::new(std::collections::BTreeSet::new());
    par_for(ints.len() as u64, |i| {
        let v = ints[i as usize];
        evals.fetch_add(2, Ordering::Relaxed);
        let want = ber::int_content(v);
        for (what, tag, utag) in [
            ("INTEGER", Tag::Integer(Integer { inner: v, ..Default::default() }), 2u32),
            ("ENUMERATED", Tag::Enumerated(Enumerated { inner: v, ..Default::default() }), 10u32),
        ] {
            match catch(|| ber::from_lber(&tag.clone().into_structure())) {
                Ok(t) => {
                    let c = t.as_prim().map(|x| x.to_vec()).unwrap_or_default();
                    if !t.is(0, utag) || c != want {
                        let decoded = ber::int_value(&c);
                        let key = if decoded == Some(v as i128) { format!("int:{}:not-shortest", what) } else { format!("int:{}:wrong-value:{}", what, int_class(v)) };
                        rep.violation(
                            &key,
                            &format!("{} {} encodes as {} (decodes to {:?}); shortest two's complement is {}", what, v, ber::hex(&c), decoded, ber::hex(&want)),
                            json!({"engine":"c07","case":"int","value":v.to_string()}),
                        );
                    }
                }
                Err(p) => {
                    rep.violation(&format!("int:{}:panic", what), &format!("{} {} panicked: {}", what, v, p), json!({"engine":"c07","case":"int","value":v.to_string()}));
                }
            }
        }
        int_classes.lock().unwrap().insert(int_class(v));
    });

    // ---- d. non-minimal length forms of valid encodings
    let forms = [LenForm::Minimal, LenForm::Long(1), LenForm::Long(2), LenForm::Long(3), LenForm::Long(4), LenForm::Long(8), LenForm::Long(9)];
    let mut pool: Vec<Tlv> = vec![];
    for t in &l1r {
        pool.push(t.clone());
    }
    for a in &l1r {
        pool.push(Tlv::seq(vec![a.clone()]));
        for b in l1r.iter().step_by(tier.pick(5, 1)) {
            pool.push(Tlv::cons(1, 3, vec![a.clone(), b.clone()]));
        }
    }
    for a in l1r.iter().step_by(3) {
        pool.push(Tlv::seq(vec![Tlv::cons(2, 0, vec![a.clone()]), Tlv::octets(vec![7u8; 130])]));
        pool.push(Tlv::seq(vec![Tlv::int(1), Tlv::cons(1, 1, vec![Tlv::enumerated(0), Tlv::octets(vec![]), Tlv::octets(vec![])])]));
    }
    pool.push(Tlv::octets(vec![1u8; 300]));
    par_for(pool.len() as u64, |i| {
        let t = &pool[i as usize];
        let f: &[LenForm] = if t.nodes() <= 4 { &forms } else { &forms[..4] };
        check_forms(&rep, t, f, &evals, &nonmin);
    });

    let ev = evals.load(Ordering::Relaxed);
    let c = cov(vec![
        ("evaluations", json!(ev)),
        ("distinct_nontrivial", json!(distinct.load(Ordering::Relaxed) + nonmin.load(Ordering::Relaxed) + ints.len() as u64)),
        ("rule", json!("a: every tag tree of depth<=2,width<=2 over 4 classes x tag numbers {0,1,2,4,10,16,17,30} x payloads {empty,00,7f,80,ff00} plus depth-3 trees over a reduced alphabet, each parsed back with 3 trailers; b: payload sizes across every length-form boundary; c: INTEGER/ENUMERATED for every i64 in the stated range and around every power of two; d: every combination of length forms {minimal,81,82,83,84,88,89} per node of pool trees. distinct_nontrivial = distinct trees + distinct non-minimal encodings + distinct integer values")),
        ("trees", json!(distinct.load(Ordering::Relaxed))),
        ("typed_wrapper_cases", json!(wrappers)),
        ("length_cases", json!(len_cases)),
        ("integer_values", json!(ints.len())),
        ("integer_length_sign_classes", json!(int_classes.lock().unwrap().len())),
        ("nonminimal_encodings", json!(nonmin.load(Ordering::Relaxed))),
        ("samples", json!([ber::hex(&ber::encode(&l2[l2.len() / 2])), "INTEGER -129 -> ff7f", ber::hex(&ber::encode_forms(&pool[3], &mut |_| LenForm::Long(3)))])),
        ("exhaustive", json!(true)),
    ]);
    rep.finish("exploration", c, vec!["the independent BER reference (vcore::ber) is correct; its encoder and decoder are cross-checked on every non-minimal case".into()])
}

pub fn replay(v: &serde_json::Value) -> i32 {
    let r = &v["replay"];
    println!("{}", serde_json::to_string_pretty(r).unwrap());
    if let Some(h) = r["hex"].as_str() {
        let b = ber::unhex(h);
        println!("reference decode: {:?}", ber::decode_one(&b));
        println!("lber parse:       {:?}", lber_parse(&b));
        if let Ok((t, _)) = ber::decode_one(&b) {
            println!("lber encode:      {:?}", lber_encode(&t).map(|x| ber::hex(&x)));
        }
    }
    if let Some(s) = r["value"].as_str() {
        let x: i64 = s.parse().unwrap();
        let t = catch(|| ber::from_lber(&Tag::Integer(Integer { inner: x, ..Default::default() }).into_structure()));
        println!("INTEGER {} -> {:?}; reference content {}", x, t, ber::hex(&ber::int_content(x)));
    }
    0
}
