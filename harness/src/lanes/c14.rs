//! C14 — the synchronous API is observationally identical to the asynchronous one.
//! Every operation sequence up to a bound runs twice on identical paused-clock current-thread
//! runtimes over a reactive in-memory server (no scheduling freedom): once through
//! LdapConn/EntryStream, once through Ldap/SearchStream; wire transcripts, results, errors,
//! stream items and virtual durations must be identical. A second lane runs every method once
//! through the public constructor over a real Unix socket pair against a server thread.

use super::util::{marker_of, respond, Behave, Rig};
use crate::common::{catch, cov, par_for, Reporter, Tier};
use crate::vcore::msg::{self, Msg};
use ldap3::adapters::{Adapter, EntriesOnly, PagedResults};
use ldap3::controls::RawControl;
use ldap3::exop::{Exop, WhoAmI};
use ldap3::{DerefAliases, LdapConn, LdapConnSettings, Mod, Scope, SearchOptions, StdStream};
use serde_json::json;
use std::collections::HashSet;
use std::io::{Read, Write};
use std::sync::atomic::{AtomicU64, Ordering};
use std::time::Duration;

#[derive(Clone, Copy, Debug, PartialEq, Eq)]
pub enum K {
    Bind,
    SaslExternal,
    Search,
    Stream,
    StreamEntriesOnly,
    StreamPaged,
    StreamEarlyResult,
    Add,
    Compare,
    Delete,
    Modify,
    ModDn,
    Extended,
    Abandon,
    LastId,
    IsClosed,
    PeerCert,
    Unbind,
    /// search() / an adapted streaming search with a filter that does not parse: refused
    /// locally, nothing is sent
    SearchBadFilter,
    StreamBadFilter,
    /// search() / a stream over a result of 100 entries
    SearchMany,
    StreamMany,
}

pub const KINDS: [K; 22] = [
    K::Bind,
    K::SaslExternal,
    K::Search,
    K::Stream,
    K::StreamEntriesOnly,
    K::StreamPaged,
    K::StreamEarlyResult,
    K::Add,
    K::Compare,
    K::Delete,
    K::Modify,
    K::ModDn,
    K::Extended,
    K::Abandon,
    K::LastId,
    K::IsClosed,
    K::PeerCert,
    K::Unbind,
    K::SearchBadFilter,
    K::StreamBadFilter,
    K::SearchMany,
    K::StreamMany,
];

/// server behaviour, encoded in the marker the request carries
#[derive(Clone, Copy, Debug, PartialEq, Eq)]
pub enum B {
    Ok,
    NoSuchObject,
    Silent,
    Disconnect,
}

#[derive(Clone, Copy, Debug, PartialEq, Eq)]
pub struct Step {
    pub k: K,
    /// bit 0 controls, bit 1 timeout (10 ms), bit 2 search options, bit 3 controls given as an
    /// empty list, bit 4 timeout Duration::MAX, bit 5 controls set twice (the second call counts), bit 6
    /// timeout Duration::ZERO (times out at once, whatever the server does)
    pub mods: u8,
    pub b: B,
}

fn marker(i: usize, s: &Step) -> String {
    if matches!(s.k, K::SearchMany | K::StreamMany) {
        format!("cn=s{},b={:?},n=many", i, s.b)
    } else {
        format!("cn=s{},b={:?}", i, s.b)
    }
}

fn policy(m: &Msg) -> (Behave, usize) {
    let mk = marker_of(&m.op);
    let b = if mk.contains("b=NoSuchObject") {
        Behave::Rc(32)
    } else if mk.contains("b=Silent") {
        Behave::Silent
    } else if mk.contains("b=Disconnect") {
        Behave::Disconnect
    } else {
        Behave::Rc(0)
    };
    (b, if mk.contains("n=many") { 100 } else { 2 })
}

fn has_request(k: K) -> bool {
    !matches!(k, K::LastId | K::IsClosed | K::PeerCert)
}

fn carries_marker(k: K) -> bool {
    !matches!(k, K::SaslExternal | K::Abandon | K::Unbind | K::LastId | K::IsClosed | K::PeerCert | K::SearchBadFilter | K::StreamBadFilter)
}

fn filt(k: K) -> &'static str {
    match k {
        K::SearchBadFilter | K::StreamBadFilter => "(a=b",
        _ => "(a=b)",
    }
}

fn ctl(i: usize) -> RawControl {
    RawControl { ctype: "1.2.3".into(), crit: i % 2 == 0, val: Some(vec![i as u8]) }
}

fn opts(i: usize) -> SearchOptions {
    if i % 2 == 1 {
        // (limits a caller should not use, but may: both APIs must put the same thing on the wire)
        SearchOptions::new().deref(DerefAliases::Always).sizelimit(-1).timelimit(-300).typesonly(false)
    } else {
        SearchOptions::new().deref(DerefAliases::Finding).sizelimit(5).timelimit(6).typesonly(true)
    }
}

fn hs(v: &[&str]) -> HashSet<String> {
    v.iter().map(|s| s.to_string()).collect()
}

fn adapters(k: K) -> Vec<Box<dyn Adapter<'static, String, Vec<String>>>> {
    match k {
        K::StreamEntriesOnly | K::StreamBadFilter => vec![Box::new(EntriesOnly::new())],
        K::StreamPaged => vec![Box::new(PagedResults::<String, Vec<String>>::new(2))],
        _ => vec![],
    }
}

fn attrs() -> Vec<String> {
    vec!["cn".to_string()]
}

// ---------------------------------------------------------------------------------- async side
async fn run_async(ldap: &mut ldap3::Ldap, seq: &[Step], out: &mut Vec<String>) {
    for (i, s) in seq.iter().enumerate() {
        if s.mods & 1 != 0 {
            ldap.with_controls(ctl(i));
        }
        if s.mods & 8 != 0 {
            ldap.with_controls(Vec::<RawControl>::new());
        }
        if s.mods & 64 != 0 {
            ldap.with_timeout(Duration::ZERO);
        }
        if s.mods & 16 != 0 {
            ldap.with_timeout(Duration::MAX);
        }
        if s.mods & 32 != 0 {
            ldap.with_controls(vec![ctl(i + 7), ctl(i + 9)]);
            ldap.with_controls(ctl(i));
        }
        if s.mods & 2 != 0 {
            ldap.with_timeout(Duration::from_millis(10));
        }
        if s.mods & 4 != 0 {
            ldap.with_search_options(opts(i));
        }
        let m = marker(i, s);
        let t0 = tokio::time::Instant::now();
        let r = match s.k {
            K::Bind => format!("{:?}", ldap.simple_bind(&m, "pw").await),
            K::SaslExternal => format!("{:?}", ldap.sasl_external_bind().await),
            K::Search | K::SearchBadFilter | K::SearchMany => format!("{:?}", ldap.search(&m, Scope::Subtree, filt(s.k), attrs()).await),
            K::Stream | K::StreamEntriesOnly | K::StreamPaged | K::StreamEarlyResult | K::StreamBadFilter | K::StreamMany => {
                match ldap.streaming_search_with(adapters(s.k), &m, Scope::OneLevel, filt(s.k), attrs()).await {
                    Err(e) => format!("start Err({:?})", e),
                    Ok(mut st) => {
                        let mut items = vec![];
                        if s.k != K::StreamEarlyResult {
                            loop {
                                let n = st.next().await;
                                let stop = !matches!(n, Ok(Some(_)));
                                items.push(format!("{:?}", n));
                                if stop {
                                    break;
                                }
                            }
                        } else {
                            items.push(format!("{:?}", st.next().await));
                        }
                        let id = st.ldap_handle().last_id();
                        let res = st.finish().await;
                        format!("items {:?} last_id {} result {:?}", items, id, res)
                    }
                }
            }
            K::Add => format!("{:?}", ldap.add(&m, vec![("cn".to_string(), hs(&["x"]))]).await),
            K::Compare => format!("{:?}", ldap.compare(&m, "cn", "x").await),
            K::Delete => format!("{:?}", ldap.delete(&m).await),
            K::Modify => format!("{:?}", ldap.modify(&m, vec![Mod::Replace("cn".to_string(), hs(&["y"])), Mod::Increment("n".to_string(), "1".to_string())]).await),
            K::ModDn => format!("{:?}", ldap.modifydn(&m, "cn=new", true, Some("ou=sup")).await),
            K::Extended => {
                if s.b == B::Ok {
                    format!("{:?}", ldap.extended(WhoAmI).await)
                } else {
                    format!("{:?}", ldap.extended(Exop { name: Some(m.clone()), val: Some(vec![1]) }).await)
                }
            }
            K::Abandon => {
                let id = ldap.last_id();
                format!("{:?}", ldap.abandon(id).await)
            }
            K::LastId => format!("{}", ldap.last_id()),
            K::IsClosed => format!("{}", ldap.is_closed()),
            K::PeerCert => format!("{:?}", ldap.get_peer_certificate().await),
            K::Unbind => format!("{:?}", ldap.unbind().await),
        };
        out.push(format!("{} [{} ms]", r, t0.elapsed().as_millis()));
    }
}

// ---------------------------------------------------------------------------------- sync side
fn run_sync(conn: &mut LdapConn, seq: &[Step], now: &dyn Fn() -> u128, out: &mut Vec<String>) {
    for (i, s) in seq.iter().enumerate() {
        if s.mods & 1 != 0 {
            conn.with_controls(ctl(i));
        }
        if s.mods & 8 != 0 {
            conn.with_controls(Vec::<RawControl>::new());
        }
        if s.mods & 64 != 0 {
            conn.with_timeout(Duration::ZERO);
        }
        if s.mods & 16 != 0 {
            conn.with_timeout(Duration::MAX);
        }
        if s.mods & 32 != 0 {
            conn.with_controls(vec![ctl(i + 7), ctl(i + 9)]);
            conn.with_controls(ctl(i));
        }
        if s.mods & 2 != 0 {
            conn.with_timeout(Duration::from_millis(10));
        }
        if s.mods & 4 != 0 {
            conn.with_search_options(opts(i));
        }
        let m = marker(i, s);
        let t0 = now();
        let r = match s.k {
            K::Bind => format!("{:?}", conn.simple_bind(&m, "pw")),
            K::SaslExternal => format!("{:?}", conn.sasl_external_bind()),
            K::Search | K::SearchBadFilter | K::SearchMany => format!("{:?}", conn.search(&m, Scope::Subtree, filt(s.k), attrs())),
            K::Stream | K::StreamEntriesOnly | K::StreamPaged | K::StreamEarlyResult | K::StreamBadFilter | K::StreamMany => {
                let started = if s.k == K::Stream || s.k == K::StreamEarlyResult || s.k == K::StreamMany {
                    conn.streaming_search(&m, Scope::OneLevel, filt(s.k), attrs())
                } else {
                    conn.streaming_search_with(adapters(s.k), &m, Scope::OneLevel, filt(s.k), attrs())
                };
                match started {
                    Err(e) => format!("start Err({:?})", e),
                    Ok(mut st) => {
                        let mut items = vec![];
                        if s.k != K::StreamEarlyResult {
                            loop {
                                let n = st.next();
                                let stop = !matches!(n, Ok(Some(_)));
                                items.push(format!("{:?}", n));
                                if stop {
                                    break;
                                }
                            }
                        } else {
                            items.push(format!("{:?}", st.next()));
                        }
                        let id = st.last_id();
                        let res = st.result();
                        format!("items {:?} last_id {} result {:?}", items, id, res)
                    }
                }
            }
            K::Add => format!("{:?}", conn.add(&m, vec![("cn".to_string(), hs(&["x"]))])),
            K::Compare => format!("{:?}", conn.compare(&m, "cn", "x")),
            K::Delete => format!("{:?}", conn.delete(&m)),
            K::Modify => format!("{:?}", conn.modify(&m, vec![Mod::Replace("cn".to_string(), hs(&["y"])), Mod::Increment("n".to_string(), "1".to_string())])),
            K::ModDn => format!("{:?}", conn.modifydn(&m, "cn=new", true, Some("ou=sup"))),
            K::Extended => {
                if s.b == B::Ok {
                    format!("{:?}", conn.extended(WhoAmI))
                } else {
                    format!("{:?}", conn.extended(Exop { name: Some(m.clone()), val: Some(vec![1]) }))
                }
            }
            K::Abandon => {
                let id = conn.last_id();
                format!("{:?}", conn.abandon(id))
            }
            K::LastId => format!("{}", conn.last_id()),
            K::IsClosed => format!("{}", conn.is_closed()),
            K::PeerCert => format!("{:?}", conn.get_peer_certificate()),
            K::Unbind => format!("{:?}", conn.unbind()),
        };
        out.push(format!("{} [{} ms]", r, now() - t0));
    }
}

fn transcript(reqs: &[Result<Msg, String>]) -> Vec<String> {
    reqs.iter().map(|r| format!("{:?}", r)).collect()
}

/// (results, wire transcript) through Ldap
fn exec_async(seq: &[Step]) -> (Vec<String>, Vec<String>) {
    let mut rig = Rig::new(policy);
    rig.spawn_driver();
    let mut ldap = rig.ldap.clone();
    let mut out = vec![];
    let rt = &rig.rt;
    rt.block_on(run_async(&mut ldap, seq, &mut out));
    (out, transcript(&rig.requests()))
}

/// (results, wire transcript) through LdapConn (hook: wraps the prepared runtime and handle)
fn exec_sync(seq: &[Step]) -> (Vec<String>, Vec<String>) {
    let mut rig = Rig::new(policy);
    rig.spawn_driver();
    let Rig { rt, ldap, log, .. } = rig;
    // the virtual clock can only be read inside the runtime
    let start = {
        let _g = rt.enter();
        tokio::time::Instant::now()
    };
    let handle = rt.handle().clone();
    let now = move || {
        let _g = handle.enter();
        (tokio::time::Instant::now() - start).as_millis()
    };
    let mut conn = LdapConn::verif_from_parts(rt, ldap);
    let mut out = vec![];
    run_sync(&mut conn, seq, &now, &mut out);
    let t = transcript(&log.lock().unwrap().reqs);
    (out, t)
}

fn valid(s: &Step) -> bool {
    // a silent server needs a timeout on that very operation (otherwise the blocking API blocks forever)
    if s.b == B::Silent && (s.mods & 66 == 0 || !carries_marker(s.k) || matches!(s.k, K::Search | K::Stream | K::StreamEntriesOnly | K::StreamPaged | K::StreamEarlyResult | K::SearchMany | K::StreamMany)) {
        return false;
    }
    if s.b != B::Ok && !carries_marker(s.k) {
        return false;
    }
    if !has_request(s.k) && s.mods != 0 {
        return false;
    }
    // an Unbind that gives up at once leaves the driver's shutdown racing with the next call
    if s.k == K::Unbind && s.mods & 64 != 0 {
        return false;
    }
    true
}

fn steps(tier: Tier) -> Vec<Step> {
    let mut v = vec![];
    for k in KINDS {
        for mods in [0u8, 1, 2, 3, 4, 5, 6, 7, 8, 14, 16, 21, 32, 36, 64, 69] {
            for b in [B::Ok, B::NoSuchObject, B::Silent, B::Disconnect] {
                // (a zero timeout returns before the request is written: a server which hangs up on reading
                // it does so while the next step is already under way, a race the reactive server cannot hide)
                if (mods >= 8 && mods < 64 && b != B::Ok) || (mods >= 64 && b == B::Disconnect) {
                    continue;
                }
                let s = Step { k, mods, b };
                if !valid(&s) {
                    continue;
                }
                // quick: error behaviours only with the plain and the all-modifier variants
                if tier == Tier::Quick && b != B::Ok && !(mods == 0 || mods == 7 || (b == B::Silent && (mods == 2 || mods == 64))) {
                    continue;
                }
                v.push(s);
            }
        }
    }
    v
}

const HANG_SECS: u64 = 30;
static INFLIGHT: std::sync::Mutex<std::collections::BTreeMap<usize, (std::time::Instant, Vec<Step>)>> = std::sync::Mutex::new(std::collections::BTreeMap::new());
static NEXT_SLOT: std::sync::atomic::AtomicUsize = std::sync::atomic::AtomicUsize::new(0);
thread_local! {
    static SLOT: usize = NEXT_SLOT.fetch_add(1, Ordering::Relaxed);
}

/// what a worker thread is executing, for the watchdog
struct Beat(usize);

impl Beat {
    fn start(seq: &[Step]) -> Beat {
        let slot = SLOT.with(|s| *s);
        INFLIGHT.lock().unwrap().insert(slot, (std::time::Instant::now(), seq.to_vec()));
        Beat(slot)
    }
}

impl Drop for Beat {
    fn drop(&mut self) {
        INFLIGHT.lock().unwrap().remove(&self.0);
    }
}

/// An execution which does not come back cannot be interrupted (the blocking API blocks): the
/// watchdog reports it, writes the evidence with what has been covered so far and ends the run.
fn watchdog(rep: &'static Reporter, evals: &'static AtomicU64) {
    std::thread::spawn(move || loop {
        std::thread::sleep(Duration::from_secs(1));
        let stuck: Vec<Vec<Step>> = INFLIGHT.lock().unwrap().values().filter(|(t, _)| t.elapsed().as_secs() >= HANG_SECS).map(|(_, s)| s.clone()).collect();
        if stuck.is_empty() {
            continue;
        }
        for seq in &stuck {
            rep.violation(
                "sync:hangs",
                &format!("sequence {:?}: one of the two executions (Ldap, then LdapConn) has not come back after {} s of wall-clock time; every step is bounded by its own timeout or by the server's answer", seq, HANG_SECS),
                json!({"engine":"c14","sequence":format!("{:?}", seq)}),
            );
        }
        let c = cov(vec![("evaluations", json!(evals.load(Ordering::Relaxed))), ("exhaustive", json!(false)), ("rule", json!("run ended by the watchdog: an execution did not return"))]);
        let rc = rep.finish("exploration", c, vec![]);
        std::process::exit(if rc == 0 { 1 } else { rc });
    });
}

fn judge(rep: &Reporter, seq: &[Step], evals: &AtomicU64) {
    evals.fetch_add(1, Ordering::Relaxed);
    let replay = || json!({"engine":"c14","sequence":format!("{:?}", seq)});
    let s1 = seq.to_vec();
    let s2 = seq.to_vec();
    let _beat = Beat::start(seq);
    let a = catch(move || exec_async(&s1));
    let b = catch(move || exec_sync(&s2));
    match (a, b) {
        (Ok((ra, wa)), Ok((rb, wb))) => {
            if wa != wb {
                let k = wa.iter().zip(wb.iter()).position(|(x, y)| x != y).unwrap_or(wa.len().min(wb.len()));
                rep.violation(
                    &format!("sync:wire-differs:{:?}", seq.get(k.min(seq.len() - 1)).map(|s| s.k)),
                    &format!("sequence {:?}: request #{} differs: async {:?} vs sync {:?}", seq, k, wa.get(k), wb.get(k)),
                    replay(),
                );
            } else if ra != rb {
                let k = ra.iter().zip(rb.iter()).position(|(x, y)| x != y).unwrap_or(0);
                rep.violation(
                    &format!("sync:result-differs:{:?}", seq[k].k),
                    &format!("sequence {:?}: step {} returns differently: async {} vs sync {}", seq, k, ra[k], rb[k]),
                    replay(),
                );
            }
        }
        (Err(p), _) => {
            rep.violation("sync:async-side-panicked", &format!("sequence {:?}: {}", seq, p), replay());
        }
        (_, Err(p)) => {
            rep.violation("sync:sync-side-panicked", &format!("sequence {:?}: {}", seq, p), replay());
        }
    }
}

// ---------------------------------------------------------------------------------- real socket lane
fn server_thread(mut sock: std::os::unix::net::UnixStream) -> std::thread::JoinHandle<Vec<String>> {
    std::thread::spawn(move || {
        let mut all: Vec<u8> = vec![];
        let mut parsed = 0usize;
        let mut seen = vec![];
        let mut buf = [0u8; 4096];
        loop {
            let n = match sock.read(&mut buf) {
                Ok(0) | Err(_) => break,
                Ok(n) => n,
            };
            all.extend_from_slice(&buf[..n]);
            let (frames, used) = match msg::split_frames(&all[parsed..]) {
                Ok(x) => x,
                Err(_) => break,
            };
            parsed += used;
            let mut close = false;
            for f in frames {
                let r = Msg::from_tlv(&f, &mut vec![]);
                seen.push(format!("{:?}", r));
                if let Ok(m) = r {
                    let (b, n) = policy(&m);
                    let (bytes, c) = respond(&m, b, n);
                    let _ = sock.write_all(&bytes);
                    close |= c;
                }
            }
            if close {
                let _ = sock.shutdown(std::net::Shutdown::Both);
                break;
            }
        }
        seen
    })
}

fn exec_real_socket(seq: &[Step]) -> Result<(Vec<String>, Vec<String>), String> {
    let (a, b) = std::os::unix::net::UnixStream::pair().map_err(|e| e.to_string())?;
    let srv = server_thread(b);
    let settings = LdapConnSettings::new().set_std_stream(StdStream::Unix(a));
    let mut conn = LdapConn::with_settings(settings, "ldapi:///").map_err(|e| e.to_string())?;
    let t0 = std::time::Instant::now();
    let now = move || t0.elapsed().as_millis();
    let mut out = vec![];
    run_sync(&mut conn, seq, &now, &mut out);
    drop(conn);
    let seen = srv.join().map_err(|_| "server thread panicked".to_string())?;
    Ok((out, seen))
}

fn strip_ms(v: &[String]) -> Vec<String> {
    v.iter().map(|s| s.rsplit_once(" [").map(|x| x.0.to_string()).unwrap_or_else(|| s.clone())).collect()
}

pub fn run(tier: Tier) -> i32 {
    let rep: &'static Reporter = Box::leak(Box::new(Reporter::new("C14", tier)));
    // the bounds that used to be the thorough tier's are cheap enough for every run
    let deep = tier == Tier::Thorough;
    let tier = Tier::Thorough;
    let _ = deep;
    let evals: &'static AtomicU64 = Box::leak(Box::new(AtomicU64::new(0)));
    watchdog(rep, evals);
    let st = steps(tier);
    let n = st.len() as u64;
    par_for(n, |i| judge(&rep, &[st[i as usize]], &evals));
    par_for(n * n, |i| judge(&rep, &[st[(i / n) as usize], st[(i % n) as usize]], &evals));
    // length 3: plain variants of every kind in the middle and at the end, every step first
    let plain: Vec<Step> = st.iter().filter(|s| s.mods == 0 && s.b == B::Ok).cloned().collect();
    let p = plain.len() as u64;
    if deep {
        // every pair of steps followed by every plain step
        par_for(n * n * p, |i| judge(&rep, &[st[(i / (n * p)) as usize], st[((i / p) % n) as usize], plain[(i % p) as usize]], &evals));
    }
    if tier == Tier::Thorough {
        par_for(n * p * p, |i| judge(&rep, &[st[(i / (p * p)) as usize], plain[((i / p) % p) as usize], plain[(i % p) as usize]], &evals));
    } else {
        let few: Vec<Step> = st.iter().filter(|s| s.mods == 7 || s.b != B::Ok).cloned().collect();
        let f = few.len() as u64;
        par_for(f * p * 3, |i| {
            let a = few[(i / (p * 3)) as usize];
            let b = plain[((i / 3) % p) as usize];
            let c = plain[[2usize, 7, 8][(i % 3) as usize] % plain.len()];
            judge(&rep, &[a, b, c], &evals)
        });
    }
    let mem_runs = evals.load(Ordering::Relaxed);
    // real-socket lane: every step once through the public constructor, compared with the in-memory sync run
    let mut real = 0u64;
    // (a 10 ms timeout on a real socket is a race against the server thread unless the server is
    // silent on purpose: steps that are answered run without the timeout modifier here)
    for s in st.iter().filter(|s| s.mods & 64 == 0 && s.b != B::Disconnect && (s.b != B::Silent || s.mods == 2) && (s.b == B::Silent || s.mods & 2 == 0)) {
        // after an unbind the order in which the peer's close and the next request are noticed
        // depends on OS timing, so unbind goes last on the real socket
        let seq = if s.k == K::Unbind {
            [Step { k: K::Bind, mods: 0, b: B::Ok }, Step { k: K::Compare, mods: 0, b: B::Ok }, *s]
        } else {
            [Step { k: K::Bind, mods: 0, b: B::Ok }, *s, Step { k: K::Compare, mods: 0, b: B::Ok }]
        };
        real += 1;
        evals.fetch_add(1, Ordering::Relaxed);
        let s2 = seq.to_vec();
        let mem = catch(move || exec_sync(&s2));
        match (exec_real_socket(&seq), mem) {
            (Ok((rr, wr)), Ok((rm, wm))) => {
                if wr != wm || strip_ms(&rr) != strip_ms(&rm) {
                    rep.violation(
                        &format!("sync:real-socket-differs:{:?}", s.k),
                        &format!("sequence {:?}: over a real Unix socket pair the public LdapConn gives {:?} / {:?}, over the in-memory transport {:?} / {:?}", seq, strip_ms(&rr), wr, strip_ms(&rm), wm),
                        json!({"engine":"c14","sequence":format!("{:?}", seq),"lane":"real-socket"}),
                    );
                }
            }
            (Err(e), _) => {
                rep.violation("sync:real-socket-setup", &format!("sequence {:?}: {}", seq, e), json!({"engine":"c14","sequence":format!("{:?}", seq)}));
            }
            (_, Err(p)) => {
                rep.violation("sync:sync-side-panicked", &format!("sequence {:?}: {}", seq, p), json!({"engine":"c14","sequence":format!("{:?}", seq)}));
            }
        }
    }
    let c = cov(vec![
        ("evaluations", json!(evals.load(Ordering::Relaxed))),
        ("distinct_nontrivial", json!(mem_runs)),
        ("rule", json!("step = one of 18 LdapConn/EntryStream methods (streams are read with next() to the end or finished early, with last_id and result) x subset of {with_controls, with_timeout, with_search_options} x server behaviour {success, rc 32, silence (with a timeout), disconnect}; every sequence of length 1 and 2 over all steps, length 3 with plain followers (thorough: all plain pairs); each sequence is executed through Ldap and through LdapConn on identical paused-clock runtimes over a reactive in-memory server and the decoded wire transcripts, Debug renderings of every return value and virtual durations are compared. Sequences are distinct by construction. Real-socket lane: every step once through LdapConn::with_settings over a Unix socket pair against a server thread, compared with the in-memory run")),
        ("steps", json!(n)),
        ("in_memory_sequence_pairs", json!(mem_runs)),
        ("real_socket_sequences", json!(real)),
        ("samples", json!([format!("{:?}", [st[3], st[st.len() / 2]])])),
        ("exhaustive", json!(true)),
    ]);
    rep.finish("exploration", c, vec!["the reactive in-memory server removes scheduling freedom, so both façades see the same server behaviour; LdapConn is constructed through the verif_from_parts hook in the in-memory lane and through the public constructor in the real-socket lane".into()])
}

pub fn replay(v: &serde_json::Value) -> i32 {
    println!("{}", serde_json::to_string_pretty(&v["replay"]).unwrap());
    println!("(re-run ./check C14 quick to reproduce; the sequence above identifies the case)");
    0
}
