//! C11 — hostile or corrupt server bytes cannot crash or wedge the connection.

use crate::common::{catch, cov, last_panic_loc, par_for, Reporter, Tier};
use crate::e1::model::run_path;
use crate::e1::types::*;
use crate::vcore::ber::{self, Body, Tlv, APP, CTX, UNI};
use crate::vcore::msg::{Ctl, Msg, Op, Res};
use bytes::BytesMut;
use serde_json::json;
use std::sync::atomic::{AtomicU64, Ordering};
use std::sync::Arc;

#[derive(Debug, PartialEq, Eq, Clone)]
pub enum Outcome {
    Frame,
    NeedMore,
    Error,
    Panic(String),
}

thread_local! {
    static CODEC: std::cell::RefCell<Option<ldap3::verif::Codec>> = const { std::cell::RefCell::new(None) };
}

pub fn decode_outcome(bytes: &[u8], fresh_codec: bool) -> Outcome {
    let b = bytes.to_vec();
    match catch(move || {
        let mut buf = BytesMut::from(&b[..]);
        if fresh_codec {
            ldap3::verif::Codec::new().decode(&mut buf).map(|o| o.is_some())
        } else {
            CODEC.with(|c| {
                let mut c = c.borrow_mut();
                if c.is_none() {
                    *c = Some(ldap3::verif::Codec::new());
                }
                c.as_mut().unwrap().decode(&mut buf).map(|o| o.is_some())
            })
        }
    }) {
        Ok(Ok(true)) => Outcome::Frame,
        Ok(Ok(false)) => Outcome::NeedMore,
        Ok(Err(_)) => Outcome::Error,
        Err(p) => {
            CODEC.with(|c| *c.borrow_mut() = None);
            Outcome::Panic(format!("{} @ {}", p, last_panic_loc()))
        }
    }
}

fn panic_site(p: &str) -> String {
    p.rsplit(" @ ").next().unwrap_or("").replace("/repo/", "")
}

/// does the outer element announce a length that is already fully present? Identifier octets
/// with all five tag bits set (high-tag-number form, never used by LDAP; lber reads the five
/// bits literally as tag 31) are judged only if the element is complete under both readings.
fn outer_complete(b: &[u8]) -> bool {
    let one = |b: &[u8]| match ber::outer_header(b) {
        Ok((h, l)) => h.checked_add(l).map_or(false, |n| n <= b.len()),
        Err(_) => false,
    };
    if !b.is_empty() && b[0] & 0x1f == 0x1f {
        let mut literal = b.to_vec();
        literal[0] &= 0xfe; // tag 30: same header length as lber's literal reading of tag 31
        one(b) && one(&literal)
    } else {
        one(b)
    }
}

fn judge_decode(rep: &Reporter, b: &[u8], lane: &str, evals: &AtomicU64, complete: &AtomicU64) {
    evals.fetch_add(1, Ordering::Relaxed);
    let o = decode_outcome(b, false);
    let replay = || json!({"engine":"c11","lane":lane,"hex":ber::hex(b)});
    if let Outcome::Panic(p) = &o {
        rep.violation(&format!("decode:panic:{}", panic_site(p)), &format!("the frame decoder panicked on {}: {}", ber::hex(b), p), replay());
        return;
    }
    if outer_complete(b) {
        complete.fetch_add(1, Ordering::Relaxed);
        if o == Outcome::NeedMore {
            rep.violation(
                "decode:waits-forever",
                &format!("all bytes announced by the outer length of {} have arrived, yet the decoder asks for more (it would wait forever)", ber::hex(b)),
                replay(),
            );
        }
    }
}

// ------------------------------------------------------------------------------------------ mutations
fn nodes_paths(t: &Tlv, cur: &mut Vec<usize>, out: &mut Vec<Vec<usize>>) {
    out.push(cur.clone());
    if let Body::Cons(v) = &t.body {
        for (i, c) in v.iter().enumerate() {
            cur.push(i);
            nodes_paths(c, cur, out);
            cur.pop();
        }
    }
}

fn get<'a>(t: &'a Tlv, p: &[usize]) -> &'a Tlv {
    let mut c = t;
    for i in p {
        c = &c.as_cons().unwrap()[*i];
    }
    c
}

fn get_mut<'a>(t: &'a mut Tlv, p: &[usize]) -> &'a mut Tlv {
    let mut c = t;
    for i in p {
        c = match &mut c.body {
            Body::Cons(v) => &mut v[*i],
            _ => unreachable!(),
        };
    }
    c
}

/// raw encoder that lets one node lie about its length or structure
fn encode_lie(t: &Tlv, path: &[usize], lie: &Lie, cur: &mut Vec<usize>, out: &mut Vec<u8>) {
    let here = cur.as_slice() == path;
    let (content, cons) = match &t.body {
        Body::Prim(v) => (v.clone(), false),
        Body::Cons(c) => {
            let mut inner = vec![];
            for (i, s) in c.iter().enumerate() {
                cur.push(i);
                encode_lie(s, path, lie, cur, &mut inner);
                cur.pop();
            }
            (inner, true)
        }
    };
    let cons_bit = if here && matches!(lie, Lie::FlipConstructed) { !cons } else { cons };
    ber::enc_ident(out, t.class, cons_bit, t.tag);
    let real = content.len() as i64;
    match lie {
        Lie::LenDelta(d) if here => {
            let l = (real + d).max(0) as usize;
            ber::enc_len(out, l, ber::LenForm::Minimal);
            out.extend_from_slice(&content);
        }
        Lie::LenAbs(l, n) if here => {
            ber::enc_len(out, *l, ber::LenForm::Long(*n));
            out.extend_from_slice(&content);
        }
        Lie::Form(n) if here => {
            ber::enc_len(out, content.len(), ber::LenForm::Long(*n));
            out.extend_from_slice(&content);
        }
        Lie::Indefinite if here => {
            out.push(0x80);
            out.extend_from_slice(&content);
        }
        Lie::TruncateContent(k) if here => {
            ber::enc_len(out, content.len(), ber::LenForm::Minimal);
            out.extend_from_slice(&content[..(*k).min(content.len())]);
        }
        _ => {
            ber::enc_len(out, content.len(), ber::LenForm::Minimal);
            out.extend_from_slice(&content);
        }
    }
}

#[derive(Clone, Debug)]
enum Lie {
    None,
    LenDelta(i64),
    LenAbs(usize, u8),
    Form(u8),
    Indefinite,
    FlipConstructed,
    TruncateContent(usize),
}

/// every single-field mutation of `t`: (description, bytes)
fn mutations(t: &Tlv) -> Vec<(String, Vec<u8>)> {
    let mut out = vec![];
    let mut paths = vec![];
    nodes_paths(t, &mut vec![], &mut paths);
    let enc_with = |tt: &Tlv, p: &[usize], lie: &Lie| {
        let mut b = vec![];
        encode_lie(tt, p, lie, &mut vec![], &mut b);
        b
    };
    for p in &paths {
        let node = get(t, p);
        let name = format!("{:?}", p);
        // length lies (the outer frame keeps its true length unless p is the root)
        for d in [-2i64, -1, 1, 2] {
            out.push((format!("len{:+}@{}", d, name), enc_with(t, p, &Lie::LenDelta(d))));
        }
        out.push((format!("len=0@{}", name), enc_with(t, p, &Lie::LenAbs(0, 1))));
        out.push((format!("len=0x7fffffff@{}", name), enc_with(t, p, &Lie::LenAbs(0x7fff_ffff, 4))));
        // announced sizes no buffer can hold: 2^32 in 5 octets, 2^63-1 and 2^64-1 in 8
        out.push((format!("len=2^32@{}", name), enc_with(t, p, &Lie::LenAbs(1usize << 32, 5))));
        out.push((format!("len=2^63-1@{}", name), enc_with(t, p, &Lie::LenAbs(usize::MAX >> 1, 8))));
        out.push((format!("len=2^64-1@{}", name), enc_with(t, p, &Lie::LenAbs(usize::MAX, 8))));
        for n in [1u8, 2, 3, 4, 8] {
            out.push((format!("form{}@{}", n, name), enc_with(t, p, &Lie::Form(n))));
        }
        out.push((format!("indefinite@{}", name), enc_with(t, p, &Lie::Indefinite)));
        out.push((format!("flip-constructed@{}", name), enc_with(t, p, &Lie::FlipConstructed)));
        // class / tag number
        for c in 0..4u8 {
            if c != node.class {
                let mut m = t.clone();
                get_mut(&mut m, p).class = c;
                out.push((format!("class{}@{}", c, name), ber::encode(&m)));
            }
        }
        for tag in 0..=30u32 {
            if tag != node.tag {
                let mut m = t.clone();
                get_mut(&mut m, p).tag = tag;
                out.push((format!("tag{}@{}", tag, name), ber::encode(&m)));
            }
        }
        // content
        match &node.body {
            Body::Prim(v) => {
                if !v.is_empty() {
                    let mut m = t.clone();
                    get_mut(&mut m, p).body = Body::Prim(vec![]);
                    out.push((format!("emptied@{}", name), ber::encode(&m)));
                    let mut m = t.clone();
                    get_mut(&mut m, p).body = Body::Prim(vec![0xff; v.len()]);
                    out.push((format!("all-ff@{}", name), ber::encode(&m)));
                    let mut m = t.clone();
                    let mut w = v.clone();
                    w.extend_from_slice(&[0x80, 0x80, 0x80, 0x80, 0x80]);
                    get_mut(&mut m, p).body = Body::Prim(w);
                    out.push((format!("extended@{}", name), ber::encode(&m)));
                }
                for k in 0..v.len() {
                    out.push((format!("truncated{}@{}", k, name), enc_with(t, p, &Lie::TruncateContent(k))));
                }
            }
            Body::Cons(_) => {
                let mut m = t.clone();
                get_mut(&mut m, p).body = Body::Cons(vec![]);
                out.push((format!("emptied@{}", name), ber::encode(&m)));
            }
        }
        // delete / duplicate this node within its parent
        if let Some((last, parent)) = p.split_last() {
            let mut m = t.clone();
            if let Body::Cons(v) = &mut get_mut(&mut m, parent).body {
                v.remove(*last);
            }
            out.push((format!("deleted@{}", name), ber::encode(&m)));
            let mut m = t.clone();
            if let Body::Cons(v) = &mut get_mut(&mut m, parent).body {
                let c = v[*last].clone();
                v.insert(*last, c);
            }
            out.push((format!("duplicated@{}", name), ber::encode(&m)));
        }
    }
    // identifier-octet rewrites: every (class, constructed bit, tag number) combination on every node
    for p in &paths {
        let node = get(t, p);
        let name = format!("{:?}", p);
        for c in 0..4u8 {
            for flip in [false, true] {
                for tag in [0u32, 1, 2, 3, 4, 5, 7, 10, 11, 16, 17, 19, 24, 25, 30] {
                    if c == node.class && !flip && tag == node.tag {
                        continue;
                    }
                    let mut m = t.clone();
                    {
                        let n = get_mut(&mut m, p);
                        n.class = c;
                        n.tag = tag;
                    }
                    let b = if flip { enc_with(&m, p, &Lie::FlipConstructed) } else { ber::encode(&m) };
                    out.push((format!("ident(c{},t{},flip{})@{}", c, tag, flip, name), b));
                }
            }
        }
    }
    // LDAPResult-shaped operations with extra trailing elements: up to eight well-formed ones
    // ([3] referral, [10] name, [11] value, [7] credentials in turn) and then one malformed
    // (a [10] that is not UTF-8, a primitive [3], a constructed [11]); also only well-formed ones
    if let Some(opnode) = paths.iter().find(|p| p.as_slice() == [1]) {
        if let Body::Cons(kids) = &get(t, opnode).body {
            if kids.len() >= 3 && kids[0].tag == 10 && kids[0].class == 0 {
                let fillers = [
                    Tlv::cons(ber::CTX, 3, vec![Tlv::octets(b"ldap://f".to_vec())]),
                    Tlv::prim(ber::CTX, 10, b"1.2.3".to_vec()),
                    Tlv::prim(ber::CTX, 11, b"v".to_vec()),
                    Tlv::prim(ber::CTX, 7, b"c".to_vec()),
                ];
                let bads = [Tlv::prim(ber::CTX, 10, vec![0xff, 0xfe]), Tlv::prim(ber::CTX, 3, vec![]), Tlv::cons(ber::CTX, 11, vec![Tlv::octets(vec![1])]), Tlv::cons(ber::CTX, 3, vec![Tlv::octets(vec![0xc3])])];
                for nfill in 0..=8usize {
                    let mut base: Vec<Tlv> = kids[..3].to_vec();
                    for k in 0..nfill {
                        base.push(fillers[k % fillers.len()].clone());
                    }
                    let mut m = t.clone();
                    get_mut(&mut m, opnode).body = Body::Cons(base.clone());
                    out.push((format!("result-tail({} well-formed)@[1]", nfill), ber::encode(&m)));
                    for (bi, bad) in bads.iter().enumerate() {
                        let mut kids2 = base.clone();
                        kids2.push(bad.clone());
                        let mut m = t.clone();
                        get_mut(&mut m, opnode).body = Body::Cons(kids2);
                        out.push((format!("result-tail({} well-formed, malformed #{})@[1]", nfill, bi), ber::encode(&m)));
                    }
                }
            }
        }
    }
    // the message ID rewritten to values that are not a message ID (beyond 2^31-1, negative):
    // whatever happens to the frame, it is not a response to the operation pending on the original ID
    if let Some(idnode) = paths.iter().find(|p| p.as_slice() == [0]) {
        for (label, content) in [
            ("2^32+orig", vec![0x01u8, 0x00, 0x00, 0x00]),
            ("2^40+orig", vec![0x01, 0x00, 0x00, 0x00, 0x00]),
            ("2^64+orig", vec![0x01, 0x00, 0x00, 0x00, 0x00, 0x00, 0x00, 0x00]),
            ("2^31", vec![0x00, 0x80, 0x00, 0x00]),
            ("2^31-as-4-octets", vec![0x80, 0x00, 0x00]),
            ("0xff-prefix", vec![0xff, 0xff, 0xff]),
        ] {
            let mut m = t.clone();
            if let Body::Prim(v) = &get(t, idnode).body {
                let mut c = content.clone();
                c.extend_from_slice(v);
                get_mut(&mut m, idnode).body = Body::Prim(c);
                out.push((format!("foreign-id({})@[0]", label), ber::encode(&m)));
            }
        }
    }
    // whole-frame truncation at every byte
    let whole = ber::encode(t);
    for k in 1..whole.len() {
        out.push((format!("frame-truncated{}", k), whole[..k].to_vec()));
    }
    let _ = Lie::None;
    out
}

fn pool(id: i64) -> Vec<(String, Msg)> {
    let res = Res { rc: 10, matched: b"dc=x".to_vec(), text: b"t".to_vec(), referral: Some(vec![b"ldap://r".to_vec()]) };
    let ctl1 = vec![Ctl { oid: b"1.2.840.113556.1.4.319".to_vec(), crit: Some(true), val: Some(vec![0x30, 0x05, 0x02, 0x01, 0x00, 0x04, 0x00]) }];
    let ctl2 = vec![ctl1[0].clone(), Ctl { oid: b"9.9".to_vec(), crit: None, val: None }];
    let mut v: Vec<(String, Msg)> = vec![];
    let ops: Vec<(&str, Op)> = vec![
        ("bind", Op::BindResp(res.clone(), Some(vec![1, 2]))),
        ("done", Op::SearchDone(res.clone())),
        ("modify", Op::ModifyResp(Res::new(0, "", ""))),
        ("compare", Op::CompareResp(Res::new(6, "", "x"))),
        ("extended", Op::ExtResp(Res::new(0, "", ""), Some(b"1.3".to_vec()), Some(vec![4, 0]))),
        ("entry", Op::SearchEntry { dn: b"cn=e".to_vec(), attrs: vec![(b"cn".to_vec(), vec![b"e".to_vec()]), (b"sn".to_vec(), vec![b"f".to_vec(), vec![0xff]])] }),
        ("reference", Op::SearchRef(vec![b"ldap://a".to_vec(), b"ldap://b".to_vec()])),
        ("intermediate", Op::Intermediate { name: Some(b"1.4".to_vec()), val: Some(vec![1]) }),
    ];
    for (n, op) in ops {
        v.push((format!("{}/noctl", n), Msg { id, op: op.clone(), controls: None }));
        v.push((format!("{}/1ctl", n), Msg { id, op: op.clone(), controls: Some(ctl1.clone()) }));
        if matches!(n, "bind" | "done" | "entry") {
            v.push((format!("{}/2ctl", n), Msg { id, op, controls: Some(ctl2.clone()) }));
        }
    }
    v
}

/// inject `bytes` while client 0 waits (compare or next() of a search on ID 1); run to a fixpoint
fn drive_pair(bytes: &[u8], pending_search: bool) -> crate::e1::model::Outcome {
    let mut s = Scenario::new("C11/pair");
    let victim = if pending_search {
        ClientSpec { script: vec![Call::Start { marker: "v".into(), chain: Chain::Direct, timeout: None, ctrl: false, opts: false, own_paging: false }, Call::Next], free: 0 }
    } else {
        ClientSpec { script: vec![Call::Single { kind: OpKind::Compare, marker: "v".into(), timeout: None, ctrl: false }], free: 0 }
    };
    s.clients = vec![victim];
    s.plans.insert("v".into(), Plan { silent: true, rc: 6, ..Default::default() });
    s.raw_inject = Some(bytes.to_vec());
    s.oracles = Oracles::default();
    let mut path: Vec<Action> = if pending_search {
        vec![Action::Do(0), Action::PollD(1), Action::PollC(0), Action::Do(0), Action::Inject, Action::PollD(3)]
    } else {
        vec![Action::Do(0), Action::PollD(1), Action::Inject, Action::PollD(3)]
    };
    let scn = Arc::new(s);
    let mut o = run_path(&scn, &path, false);
    for _ in 0..8 {
        let next = o.enabled.iter().find(|a| matches!(a, Action::PollC(_) | Action::PollD(_))).cloned();
        match next {
            Some(a) => {
                path.push(a);
                o = run_path(&scn, &path, false);
            }
            None => break,
        }
    }
    o
}

/// run the bytes through the real driver with a single op pending on `id`, or a search pending on it
fn through_driver(rep: &Reporter, label: &str, bytes: &[u8], pending_search: bool, evals: &AtomicU64) {
    evals.fetch_add(1, Ordering::Relaxed);
    let mut s = Scenario::new(&format!("C11/driver/{}/{}", if pending_search { "search-pending" } else { "single-pending" }, label));
    let victim = if pending_search {
        ClientSpec { script: vec![Call::Start { marker: "v".into(), chain: Chain::Direct, timeout: None, ctrl: false, opts: false, own_paging: false }, Call::Next, Call::Next, Call::Finish], free: 0 }
    } else {
        ClientSpec { script: vec![Call::Single { kind: OpKind::Compare, marker: "v".into(), timeout: None, ctrl: false }], free: 0 }
    };
    s.clients = vec![victim, ClientSpec { script: vec![Call::Single { kind: OpKind::Bind, marker: "w".into(), timeout: None, ctrl: false }], free: 0 }];
    s.plans.insert("v".into(), Plan { silent: true, ..Default::default() });
    s.plans.insert("w".into(), Plan { silent: true, ..Default::default() });
    s.raw_inject = Some(bytes.to_vec());
    s.oracles = Oracles::default();
    let path: Vec<Action> = if pending_search {
        vec![Action::Do(0), Action::Do(1), Action::PollD(1), Action::PollC(0), Action::Do(0), Action::Inject, Action::PollD(3)]
    } else {
        vec![Action::Do(0), Action::Do(1), Action::PollD(1), Action::Inject, Action::PollD(3)]
    };
    let scn = Arc::new(s);
    let o = run_path(&scn, &path, false);
    let replay = || json!({"engine":"e1","scenario":&*scn,"path":path});
    let complete = outer_complete(bytes);
    if o.driver.starts_with("panicked") {
        let site = panic_site(&o.driver);
        rep.violation(&format!("driver:panic:{}", site), &format!("[{}] drive() panicked on {}: {}", scn.name, ber::hex(bytes), o.driver), replay());
        return;
    }
    // continue the run: poll whoever is woken, to a fixpoint
    let mut path2 = path.clone();
    let mut o = o;
    for _ in 0..12 {
        let next = o.enabled.iter().find(|a| matches!(a, Action::PollC(_) | Action::PollD(_))).cloned();
        match next {
            Some(a) => {
                path2.push(a);
                o = run_path(&scn, &path2, false);
            }
            None => break,
        }
    }
    let replay2 = || json!({"engine":"e1","scenario":&*scn,"path":path2});
    if o.driver.starts_with("panicked") {
        let site = panic_site(&o.driver);
        rep.violation(&format!("driver:panic:{}", site), &format!("[{}] drive() panicked on {}: {}", scn.name, ber::hex(bytes), o.driver), replay2());
        return;
    }
    for (k, d) in &o.viol {
        if k.starts_with("client-panic") {
            // a caller-side panic while converting a frame with a well-formed envelope: information only
            rep.note(&format!("caller-side panic (not judged): {}", d));
        }
    }
    if label.contains("foreign-id(") {
        // nobody may be handed this frame
        let served: Vec<String> = o.logs.iter().flatten().filter(|x| matches!(&x.ret, Ret::Res(_) | Ret::Exop(..) | Ret::Item(Some(_)) | Ret::SearchRes(..)) || matches!(&x.ret, Ret::Fin(r) if r.rc != 88)).map(|x| format!("{} -> {:?}", x.call, x.ret)).collect();
        if !served.is_empty() {
            rep.violation(
                "driver:foreign-id-delivered",
                &format!("[{}] a frame whose message ID is not the pending operation's ({}) was handed to a caller: {:?}", scn.name, ber::hex(bytes), served),
                replay2(),
            );
        }
    }
    let driver_err = o.driver.starts_with("returned Err");
    if driver_err {
        // every pending operation must observe the failure
        let still_waiting: Vec<usize> = o.pending.clone();
        if !still_waiting.is_empty() {
            rep.violation("driver:error-not-observed", &format!("[{}] drive() returned an error on {} but clients {:?} still wait", scn.name, ber::hex(bytes), still_waiting), replay2());
        }
    } else if complete && !o.driver.starts_with("running") && !o.driver.starts_with("returned Ok") {
        rep.violation("driver:unexpected-state", &format!("[{}] driver state {} on {}", scn.name, o.driver, ber::hex(bytes)), replay2());
    }
}

pub fn run(tier: Tier) -> i32 {
    let rep = Arc::new(Reporter::new("C11", tier));
    crate::e1::model::spawn_watchdog(rep.clone(), std::time::Duration::from_secs(30));
    let evals = AtomicU64::new(0);
    let complete = AtomicU64::new(0);
    // ---- a. every short byte string over the BER-relevant alphabet
    let alpha: [u8; 24] = [0x00, 0x01, 0x02, 0x03, 0x04, 0x05, 0x0a, 0x10, 0x30, 0x31, 0x60, 0x61, 0x64, 0x65, 0x73, 0x78, 0x7f, 0x80, 0x81, 0x82, 0x84, 0xa0, 0xa3, 0xff];
    let k = alpha.len() as u64;
    let maxlen = tier.pick(5usize, 6usize);
    let mut short_total = 0u64;
    for len in 1..=maxlen {
        let n = k.pow(len as u32);
        short_total += n;
        par_for(n, |mut i| {
            let mut s = Vec::with_capacity(len);
            for _ in 0..len {
                s.push(alpha[(i % k) as usize]);
                i /= k;
            }
            judge_decode(&rep, &s, "short", &evals, &complete);
        });
    }
    // prefixes 30 <len> 02 01 <id> followed by every string of length <= 3/4 (envelope-shaped)
    let tail = tier.pick(3usize, 4usize);
    let mut env_total = 0u64;
    for len in 0..=tail {
        let n = k.pow(len as u32);
        env_total += n * 3;
        par_for(n, |mut i| {
            let mut t = Vec::with_capacity(len);
            for _ in 0..len {
                t.push(alpha[(i % k) as usize]);
                i /= k;
            }
            for head in [&[0x02u8, 0x01, 0x01][..], &[0x02, 0x01, 0x01, 0x61, 0x00][..], &[0x02, 0x01, 0x01, 0x65, 0x07, 0x0a, 0x01, 0x00, 0x04, 0x00, 0x04, 0x00][..]] {
                let mut body = head.to_vec();
                body.extend_from_slice(&t);
                let mut s = vec![0x30, body.len() as u8];
                s.extend_from_slice(&body);
                judge_decode(&rep, &s, "envelope", &evals, &complete);
            }
        });
    }
    // ---- b. every single-field mutation of valid messages: decoder, then the real driver
    let pool_msgs = pool(1);
    let mut muts: Vec<(String, Vec<u8>, bool)> = vec![];
    for (name, m) in &pool_msgs {
        let t = m.to_tlv();
        let is_search_item = matches!(m.op, Op::SearchEntry { .. } | Op::SearchRef(_) | Op::Intermediate { .. } | Op::SearchDone(_));
        for (d, b) in mutations(&t) {
            muts.push((format!("{}:{}", name, d), b, is_search_item));
        }
        // the unmutated message under an ID in use by the other kind of operation
        muts.push((format!("{}:unmutated", name), m.encode(), is_search_item));
    }
    // frames nobody waits for - an unsolicited notification (ID 0) and a response under an unused
    // ID - mutated the same way; the operations pending on ID 1 must not be hurt by them
    let n_matched = muts.len();
    for (prefix, id, names) in [("id0", 0i64, vec!["extended/noctl", "extended/1ctl", "bind/noctl"]), ("unused777", 777, vec!["extended/noctl", "entry/noctl", "done/1ctl"])] {
        for (name, m) in pool(id) {
            if !names.contains(&name.as_str()) {
                continue;
            }
            for (d, b) in mutations(&m.to_tlv()) {
                if d.contains("ident(") && !d.ends_with("@[1]") {
                    continue; // identifier rewrites: of the protocolOp only
                }
                muts.push((format!("{}:{}:{}", prefix, name, d), b, false));
            }
            muts.push((format!("{}:{}:unmutated", prefix, name), m.encode(), false));
        }
    }
    let nm = muts.len() as u64;
    let driver_runs = AtomicU64::new(0);
    let stride = tier.pick(7u64, 1u64);
    par_for(nm, |i| {
        let (label, b, _search_item) = &muts[i as usize];
        judge_decode(&rep, b, "mutation", &evals, &complete);
        // the driver lane: quick runs a third of the mutants (every mutant of every third node), thorough all
        let ident = label.contains(":ident(");
        let result_msg = label.starts_with("done/") || label.starts_with("bind/noctl");
        let unmatched = (i as usize) >= n_matched;
        let run_driver = if label.contains("foreign-id(") || label.contains("result-tail(") {
            true
        } else if unmatched {
            tier == Tier::Thorough || i % 3 == 0 || label.contains("deleted@") || label.contains("emptied@") || label.contains("len=")
        } else if ident { result_msg && (tier == Tier::Thorough || label.starts_with("done/noctl") || i % 5 == 0) } else { i % stride == 0 };
        if run_driver || label.ends_with("unmutated") {
            through_driver(&rep, label, b, false, &evals);
            through_driver(&rep, label, b, true, &evals);
            driver_runs.fetch_add(2, Ordering::Relaxed);
        }
    });
    // ---- b'. two complete frames in one read: a frame nobody waits for (ID 0 notification, an
    // unused ID) directly followed by the genuine response; the pending operation must get it
    let pair_runs = AtomicU64::new(0);
    {
        let firsts: Vec<(String, Vec<u8>)> = vec![
            ("notice-of-disconnection(id0)".into(), Msg { id: 0, op: Op::ExtResp(Res::new(52, "", "bye"), Some(b"1.3.6.1.4.1.1466.20036".to_vec()), None), controls: None }.encode()),
            ("id0-with-controls".into(), Msg { id: 0, op: Op::ExtResp(Res::new(0, "", ""), None, None), controls: Some(vec![Ctl { oid: b"1.2".to_vec(), crit: None, val: None }]) }.encode()),
            ("unused-id-777".into(), Msg { id: 777, op: Op::BindResp(Res::new(0, "", "other"), None), controls: None }.encode()),
            ("entry-for-unused-id".into(), Msg { id: 778, op: Op::SearchEntry { dn: b"cn=z".to_vec(), attrs: vec![] }, controls: None }.encode()),
            // frames beyond the read buffer's initial size, right in front of the genuine response
            ("unused-id-9000-octets".into(), Msg { id: 779, op: Op::BindResp(Res::new(0, "", &"d".repeat(9000)), None), controls: None }.encode()),
            ("unused-id-20000-octets".into(), Msg { id: 780, op: Op::BindResp(Res::new(0, "", &"d".repeat(20000)), None), controls: None }.encode()),
            ("unused-id-70000-octets".into(), Msg { id: 781, op: Op::SearchEntry { dn: b"cn=z".to_vec(), attrs: vec![(b"jpegPhoto".to_vec(), vec![vec![0x42; 70000]])] }, controls: None }.encode()),
            ("id0-5000-octets".into(), Msg { id: 0, op: Op::ExtResp(Res::new(0, "", &"n".repeat(5000)), Some(b"1.2.3".to_vec()), None), controls: None }.encode()),
        ];
        for (name, first) in &firsts {
            for pending_search in [false, true] {
                let genuine = if pending_search {
                    Msg { id: 1, op: Op::SearchEntry { dn: b"v#0".to_vec(), attrs: vec![] }, controls: None }.encode()
                } else {
                    Msg { id: 1, op: Op::CompareResp(Res::new(6, "id=1", "v")), controls: None }.encode()
                };
                let mut bytes = first.clone();
                bytes.extend_from_slice(&genuine);
                pair_runs.fetch_add(1, Ordering::Relaxed);
                evals.fetch_add(1, Ordering::Relaxed);
                let o = drive_pair(&bytes, pending_search);
                let replay = json!({"engine":"c11","lane":"pair","hex":ber::hex(&bytes),"first":name});
                if o.driver.starts_with("panicked") {
                    rep.violation(&format!("driver:panic:{}", panic_site(&o.driver)), &format!("[pair {}] drive() panicked: {}", name, o.driver), replay);
                } else if o.pending.contains(&0) {
                    rep.violation(
                        "driver:complete-frame-held-back",
                        &format!("[pair {} + genuine response, search pending: {}] both frames arrived completely in one read, yet the waiting operation was not served (driver {})", name, pending_search, o.driver),
                        replay,
                    );
                }
            }
        }
    }
    // ---- c. nesting depth (child process, 2 MiB-stack thread like a tokio worker)
    let mut depth_results = vec![];
    let mut depth_cases: Vec<(usize, &str)> = [10usize, 100, 1000, 10_000, 100_000, 250_000].iter().map(|d| (*d, "universal")).collect();
    for w in ["context", "application", "private", "mixed"] {
        for d in [65usize, 1000, 150_000, 250_000] {
            depth_cases.push((d, w));
        }
    }
    for (depth, wrapper) in depth_cases {
        let exe = std::env::current_exe().unwrap();
        let out = std::process::Command::new(exe).args(["C11", "--depth", &depth.to_string(), wrapper]).output();
        evals.fetch_add(1, Ordering::Relaxed);
        match out {
            Ok(o) => {
                let txt = String::from_utf8_lossy(&o.stdout).to_string();
                let ok = o.status.code() == Some(0) && (txt.contains("outcome=Frame") || txt.contains("outcome=Error"));
                depth_results.push(json!({"depth": depth, "nested_identifier": wrapper, "status": format!("{:?}", o.status.code()), "stdout": txt.trim()}));
                if !ok {
                    rep.violation(
                        "decode:stack-overflow",
                        &format!("decoding {} nested constructed elements ({} identifiers, {} bytes) ended with status {:?} / {:?} (a signal means the stack overflowed)", depth, wrapper, depth * 6, o.status.code(), txt.trim()),
                        json!({"engine":"c11","lane":"depth","depth":depth,"wrapper":wrapper}),
                    );
                }
            }
            Err(e) => panic!("verif-machinery: cannot run the depth child: {}", e),
        }
    }
    let total = evals.load(Ordering::Relaxed);
    let c = cov(vec![
        ("evaluations", json!(total)),
        ("distinct_nontrivial", json!(complete.load(Ordering::Relaxed) + driver_runs.load(Ordering::Relaxed))),
        ("rule", json!("a: every byte string up to the stated length over 24 BER-relevant octets, plus envelope-shaped prefixes with every tail; b: every single-field mutation (length -2,-1,+1,+2,=0,=0x7fffffff,=2^32,=2^63-1,=2^64-1, every non-minimal form, indefinite, class, constructed bit, tag number 0..30, node deleted/duplicated, content emptied/truncated at every byte/extended, frame truncated at every byte) of every node of 19 valid responses, through the decoder and through the real driver with a single operation and with a search pending on the message's ID, and of unsolicited (ID 0) and unused-ID frames with operations pending on another ID; c: nesting depths up to 250000 in a child process on a 2 MiB stack. non-trivial = inputs whose outer element is completely present (the decoder must decide) + driver runs")),
        ("short_strings", json!(short_total)),
        ("short_max_len", json!(maxlen)),
        ("envelope_shaped", json!(env_total)),
        ("mutants", json!(nm)),
        ("driver_runs", json!(driver_runs.load(Ordering::Relaxed))),
        ("frame_pair_runs", json!(pair_runs.load(Ordering::Relaxed))),
        ("depth_runs", json!(depth_results)),
        ("samples", json!(["3000", ber::hex(&muts[muts.len() / 3].1), muts[muts.len() / 3].0])),
        ("exhaustive", json!(true)),
    ]);
    rep.finish("exploration", c, vec!["a caller-side panic while converting a frame with a well-formed envelope but a malformed result body is logged, not judged (the statement speaks of the driver and of envelope-level rejection)".into()])
}

/// child mode: decode `depth` nested constructed elements on a 2 MiB stack
pub fn depth_child(depth: usize, wrapper: &str) -> i32 {
    // identifier octets of the nested constructed elements: universal SEQUENCE, context,
    // application, private, or all of them in turn; the outermost element is always a SEQUENCE
    let tags: Vec<u8> = match wrapper {
        "context" => vec![0xa0],
        "application" => vec![0x60],
        "private" => vec![0xe0],
        "mixed" => vec![0x30, 0xa3, 0x64, 0xe0, 0x31],
        _ => vec![0x30],
    };
    let h = std::thread::Builder::new()
        .stack_size(2 * 1024 * 1024)
        .spawn(move || {
            // innermost first: 02 01 01; the headers are computed from the inside out and
            // written in one pass (linear in the depth)
            let inner: Vec<u8> = vec![0x02, 0x01, 0x01];
            let mut headers: Vec<Vec<u8>> = Vec::with_capacity(depth);
            let mut cur = inner.len();
            for d in 0..depth {
                let mut h = vec![if d + 1 == depth { 0x30 } else { tags[d % tags.len()] }];
                ber::enc_len(&mut h, cur, ber::LenForm::Minimal);
                cur += h.len();
                headers.push(h);
            }
            let mut b: Vec<u8> = Vec::with_capacity(cur);
            for h in headers.iter().rev() {
                b.extend_from_slice(h);
            }
            b.extend_from_slice(&inner);
            let o = decode_outcome(&b, true);
            println!("depth={} bytes={} outcome={:?}", depth, b.len(), o);
        })
        .unwrap();
    match h.join() {
        Ok(()) => 0,
        Err(_) => 3,
    }
}

pub fn replay(v: &serde_json::Value) -> i32 {
    if v["replay"]["engine"] == "e1" {
        return crate::e1::replay(v);
    }
    if let Some(h) = v["replay"]["hex"].as_str() {
        let b = ber::unhex(h);
        println!("bytes: {}", ber::hex(&b));
        println!("outer element complete: {}", outer_complete(&b));
        println!("reference decode: {:?}", ber::decode_one(&b).map(|x| x.1));
        println!("crate decoder: {:?}", decode_outcome(&b, true));
    }
    if let Some(d) = v["replay"]["depth"].as_u64() {
        return depth_child(d as usize, v["replay"]["wrapper"].as_str().unwrap_or("universal"));
    }
    0
}

#[allow(dead_code)]
fn unused() {
    let _ = (APP, CTX, UNI);
}
