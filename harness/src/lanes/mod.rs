//! Engine E3: bounded-exhaustive lanes against the independent references in vcore.
pub mod util;
pub mod c02;
pub mod c03;
pub mod c06;
pub mod c07;
pub mod c08;
pub mod c09;
pub mod c11;
pub mod c14;
pub mod c15;
pub mod c19;
pub mod c20;
