//! C19 — control and extended-operation values round-trip through their codecs (bounded-exhaustive).

use crate::common::{catch, cov, Reporter, Tier};
use crate::vcore::ber::{self, LenForm, Tlv, APP, CTX, UNI};
use crate::vcore::filter::Filter;
use crate::vcore::msg::{Ctl, Msg, Op, Res};
use bytes::BytesMut;
use ldap3::controls::{
    self, Assertion, ManageDsaIt, MakeCritical, MatchedValues, PostRead, PostReadResp, PreRead, ProxyAuth, RawControl, RefreshMode, RelaxRules, SyncDone, SyncInfo,
    SyncRequest, SyncState, TxnSpec,
};
use ldap3::exop::{EndTxn, Exop, PasswordModify, PasswordModifyResp, StartTxn, StartTxnResp, WhoAmI, WhoAmIResp};
use ldap3::ResultEntry;
use serde_json::json;
use std::sync::atomic::{AtomicU64, Ordering};

struct Ctx<'a> {
    rep: &'a Reporter,
    evals: AtomicU64,
}

impl Ctx<'_> {
    fn ctl(&self, what: &str, got: Result<RawControl, String>, oid: &str, crit: bool, val: Option<Vec<u8>>) {
        self.evals.fetch_add(1, Ordering::Relaxed);
        let replay = json!({"engine":"c19","case":what});
        match got {
            Err(p) => {
                self.rep.violation(&format!("control:panic:{}", kind(what)), &format!("{} panicked: {}", what, p), replay);
            }
            Ok(rc) => {
                if rc.ctype != oid {
                    self.rep.violation(&format!("control:oid:{}", kind(what)), &format!("{}: OID {} != {}", what, rc.ctype, oid), replay);
                } else if rc.crit != crit {
                    self.rep.violation(&format!("control:criticality:{}", kind(what)), &format!("{}: criticality {} != {}", what, rc.crit, crit), replay);
                } else if rc.val != val {
                    self.rep.violation(
                        &format!("control:value:{}", kind(what)),
                        &format!("{}: value {:?} != RFC encoding {:?}", what, rc.val.as_ref().map(|v| ber::hex(v)), val.as_ref().map(|v| ber::hex(v))),
                        replay,
                    );
                }
            }
        }
    }
    fn exop(&self, what: &str, got: Result<Exop, String>, name: &str, vals: Vec<Option<Vec<u8>>>) {
        self.evals.fetch_add(1, Ordering::Relaxed);
        let replay = json!({"engine":"c19","case":what});
        match got {
            Err(p) => {
                self.rep.violation(&format!("exop:panic:{}", kind(what)), &format!("{} panicked: {}", what, p), replay);
            }
            Ok(e) => {
                if e.name.as_deref() != Some(name) {
                    self.rep.violation(&format!("exop:name:{}", kind(what)), &format!("{}: name {:?} != {}", what, e.name, name), replay);
                } else if !vals.contains(&e.val) {
                    self.rep.violation(
                        &format!("exop:value:{}", kind(what)),
                        &format!("{}: value {:?} not among the RFC encodings {:?}", what, e.val.as_ref().map(|v| ber::hex(v)), vals.iter().map(|v| v.as_ref().map(|x| ber::hex(x))).collect::<Vec<_>>()),
                        replay,
                    );
                }
            }
        }
    }
    fn eq<T: PartialEq + std::fmt::Debug>(&self, what: &str, key: &str, got: Result<T, String>, want: T, hex: &[u8]) {
        self.evals.fetch_add(1, Ordering::Relaxed);
        let replay = json!({"engine":"c19","case":what,"hex":ber::hex(hex)});
        match got {
            Err(p) => {
                self.rep.violation(&format!("{}:panic", key), &format!("{} on {} panicked: {}", what, ber::hex(hex), p), replay);
            }
            Ok(g) if g == want => {}
            Ok(g) => {
                self.rep.violation(&format!("{}:value", key), &format!("{} on {}: parsed {:?}, encoded {:?}", what, ber::hex(hex), g, want), replay);
            }
        }
    }
}

fn kind(what: &str) -> String {
    what.split(|c: char| c == ' ' || c == '{' || c == '(').next().unwrap_or("").to_string()
}

fn cookies() -> Vec<Vec<u8>> {
    vec![vec![], vec![0x00], vec![0xff; 127], vec![0x5a; 128], (0..=255u8).collect(), vec![7; 300]]
}

/// every combination of length forms over the nodes of a small tree
fn all_forms(t: &Tlv) -> Vec<Vec<u8>> {
    let forms = [LenForm::Minimal, LenForm::Long(1), LenForm::Long(2), LenForm::Long(4)];
    let n = t.nodes();
    let mut out = vec![];
    // (length fields of 8, 9 and 16 octets: all at once)
    for l in [LenForm::Long(8), LenForm::Long(9), LenForm::Long(16)] {
        out.push(ber::encode_forms(t, &mut |_| l));
    }
    if n <= 5 {
        for code in 0..forms.len().pow(n as u32) {
            let mut c = code;
            let choice: Vec<LenForm> = (0..n)
                .map(|_| {
                    let f = forms[c % forms.len()];
                    c /= forms.len();
                    f
                })
                .collect();
            out.push(ber::encode_forms(t, &mut |k| choice[k]));
        }
    } else {
        for f in forms {
            out.push(ber::encode_forms(t, &mut |_| f));
        }
        for node in 0..n {
            out.push(ber::encode_forms(t, &mut |k| if k == node { LenForm::Long(3) } else { LenForm::Minimal }));
        }
    }
    out
}

pub fn run(tier: Tier) -> i32 {
    let rep = Reporter::new("C19", tier);
    // the bounds that used to be the thorough tier's are cheap enough for every run
    let deep = tier == Tier::Thorough;
    let tier = Tier::Thorough;
    let _ = deep;
    let cx = Ctx { rep: &rep, evals: AtomicU64::new(0) };
    let ck = cookies();

    // ------------------------------------------------------------------ request controls
    // (the boundaries of every INTEGER width, values in the middle of each width, and round numbers)
    let mut page_sizes: Vec<i32> = vec![0, 1, 127, 128, 255, 256, 32767, 32768, 65535, 65536, i32::MAX];
    for k in 1..31u32 {
        page_sizes.extend([(1i32 << k) - 1, 1 << k, (1 << k) + 1, (1i32 << k) + (1 << (k - 1))]);
    }
    page_sizes.extend([1000, 10_000, 100_000, 1_000_000, 10_000_000, 100_000_000, 1_000_000_000, 12_345_678]);
    page_sizes.sort_unstable();
    page_sizes.dedup();
    for size in page_sizes {
        for c in &ck {
            let want = ber::encode(&Tlv::seq(vec![Tlv::int(size as i64), Tlv::octets(c.clone())]));
            let (c1, c2) = (c.clone(), c.clone());
            cx.ctl(&format!("PagedResults {{size {}, cookie {}B}}", size, c.len()), catch(move || controls::PagedResults { size, cookie: c1 }.into()), "1.2.840.113556.1.4.319", false, Some(want.clone()));
            cx.ctl(
                &format!("PagedResults.critical {{size {}, cookie {}B}}", size, c.len()),
                catch(move || controls::PagedResults { size, cookie: c2 }.critical().into()),
                "1.2.840.113556.1.4.319",
                true,
                Some(want),
            );
        }
    }
    // cookie length sweep across the length-form boundaries (every nesting level)
    let sweep: Vec<usize> = (0..=tier.pick(300usize, 700usize)).chain(65500..=65545).collect();
    for l in sweep {
        let c = vec![0xc0u8; l];
        let want = ber::encode(&Tlv::seq(vec![Tlv::int(500), Tlv::octets(c.clone())]));
        let c1 = c.clone();
        cx.ctl(&format!("PagedResults cookie-sweep {}B", l), catch(move || controls::PagedResults { size: 500, cookie: c1 }.into()), "1.2.840.113556.1.4.319", false, Some(want));
        let want = ber::encode(&Tlv::seq(vec![Tlv::enumerated(3), Tlv::octets(c.clone()), Tlv::boolean(true)]));
        cx.ctl(
            &format!("SyncRequest cookie-sweep {}B", l),
            catch(move || SyncRequest { mode: RefreshMode::RefreshAndPersist, cookie: Some(c), reload_hint: true }.into()),
            "1.3.6.1.4.1.4203.1.9.1.1",
            false,
            Some(want),
        );
    }
    for (mode, mv) in [(0, 1i64), (1, 3)] {
        for cookie in std::iter::once(None).chain(ck.iter().cloned().map(Some)) {
            for hint in [false, true] {
                for crit in [false, true] {
                    let mut v = vec![Tlv::enumerated(mv)];
                    if let Some(c) = &cookie {
                        v.push(Tlv::octets(c.clone()));
                    }
                    if hint {
                        v.push(Tlv::boolean(true));
                    }
                    let want = ber::encode(&Tlv::seq(v));
                    let ck2 = cookie.clone();
                    cx.ctl(
                        &format!("SyncRequest {{mode {}, cookie {:?}B, hint {}, critical {}}}", mv, cookie.as_ref().map(|c| c.len()), hint, crit),
                        catch(move || {
                            let sr = SyncRequest { mode: if mode == 0 { RefreshMode::RefreshOnly } else { RefreshMode::RefreshAndPersist }, cookie: ck2, reload_hint: hint };
                            if crit {
                                sr.critical().into()
                            } else {
                                sr.into()
                            }
                        }),
                        "1.3.6.1.4.1.4203.1.9.1.1",
                        crit,
                        Some(want),
                    );
                }
            }
        }
    }
    let attr_lists: Vec<Vec<&str>> = vec![vec![], vec!["cn"], vec!["cn", "sn"], vec!["*", "+", "userCertificate;binary"], vec!["é"]];
    for a in &attr_lists {
        let want = ber::encode(&Tlv::seq(a.iter().map(|x| Tlv::octets(x.as_bytes().to_vec())).collect()));
        let (a1, a2) = (a.clone(), a.clone());
        cx.ctl(&format!("PreRead {:?}", a), catch(move || PreRead::new(a1)), "1.3.6.1.1.13.1", false, Some(want.clone()));
        cx.ctl(&format!("PostRead {:?}", a), catch(move || PostRead::new(a2)), "1.3.6.1.1.13.2", false, Some(want.clone()));
    }
    // Assertion / MatchedValues over the C08 item pool
    let items = super::c08::items_pub(tier);
    for f in items.iter().step_by(tier.pick(3, 1)) {
        let s = f.print();
        let want = ber::encode(&f.to_tlv());
        let s1 = s.clone();
        cx.ctl(&format!("Assertion {}", s), catch(move || Assertion::new(s1)), "1.3.6.1.1.12", false, Some(want));
        let mv = format!("({})", s);
        let wantmv = ber::encode(&Tlv::seq(vec![f.to_tlv()]));
        cx.ctl(&format!("MatchedValues {}", mv), catch(move || MatchedValues::new(mv)), "1.2.826.0.1.3344810.2.3", false, Some(wantmv));
    }
    for pair in items.chunks(2).step_by(tier.pick(11, 3)) {
        if pair.len() == 2 {
            let mv = format!("({}{})", pair[0].print(), pair[1].print());
            let want = ber::encode(&Tlv::seq(vec![pair[0].to_tlv(), pair[1].to_tlv()]));
            cx.ctl(&format!("MatchedValues {}", mv), catch(move || MatchedValues::new(mv)), "1.2.826.0.1.3344810.2.3", false, Some(want));
        }
    }
    let f2 = Filter::And(vec![Filter::Eq(b"a".to_vec(), b"b".to_vec()), Filter::Not(Box::new(Filter::Present(b"c".to_vec())))]);
    cx.ctl("Assertion composite", catch(|| Assertion::new("(&(a=b)(!(c=*)))")), "1.3.6.1.1.12", false, Some(ber::encode(&f2.to_tlv())));
    for id in ["", "dn:cn=admin,dc=x", "u:é"] {
        let i1 = id.to_string();
        cx.ctl(&format!("ProxyAuth {:?}", id), catch(move || ProxyAuth { authzid: i1 }.into()), "2.16.840.1.113730.3.4.18", true, Some(id.as_bytes().to_vec()));
        cx.ctl(&format!("TxnSpec {:?}", id), catch(move || TxnSpec { txn_id: id }.into()), "1.3.6.1.1.21.2", true, Some(id.as_bytes().to_vec()));
    }
    cx.ctl("ManageDsaIT", catch(|| ManageDsaIt.into()), "2.16.840.1.113730.3.4.2", false, None);
    cx.ctl("ManageDsaIT.critical", catch(|| ManageDsaIt.critical().into()), "2.16.840.1.113730.3.4.2", true, None);
    cx.ctl("RelaxRules", catch(|| RelaxRules.into()), "1.3.6.1.4.1.4203.666.5.12", false, None);
    cx.ctl("RelaxRules.critical", catch(|| RelaxRules.critical().into()), "1.3.6.1.4.1.4203.666.5.12", true, None);

    // ------------------------------------------------------------------ extended requests
    cx.exop("WhoAmI", catch(|| WhoAmI.into()), "1.3.6.1.4.1.4203.1.11.3", vec![None]);
    cx.exop("StartTxn", catch(|| StartTxn.into()), "1.3.6.1.1.21.1", vec![None]);
    let pw: [Option<&'static str>; 3] = [None, Some(""), Some("pä$$")];
    for u in pw {
        for o in pw {
            for n in pw {
                let mut v = vec![];
                if let Some(x) = u {
                    v.push(Tlv::prim(CTX, 0, x.as_bytes().to_vec()));
                }
                if let Some(x) = o {
                    v.push(Tlv::prim(CTX, 1, x.as_bytes().to_vec()));
                }
                if let Some(x) = n {
                    v.push(Tlv::prim(CTX, 2, x.as_bytes().to_vec()));
                }
                let seq = Some(ber::encode(&Tlv::seq(v.clone())));
                // with no field present both an absent value and an empty SEQUENCE are acceptable
                let ok = if v.is_empty() { vec![None, seq] } else { vec![seq] };
                cx.exop(&format!("PasswordModify {:?}/{:?}/{:?}", u, o, n), catch(move || PasswordModify { user_id: u, old_pass: o, new_pass: n }.into()), "1.3.6.1.4.1.4203.1.11.1", ok);
            }
        }
    }
    for commit in [true, false] {
        for id in ["", "txn-1", "é"] {
            let mut v = vec![];
            if !commit {
                v.push(Tlv::boolean(false));
            }
            v.push(Tlv::octets(id.as_bytes().to_vec()));
            cx.exop(&format!("EndTxn {{commit {}, id {:?}}}", commit, id), catch(move || EndTxn { txn_id: id, commit }.into()), "1.3.6.1.1.21.3", vec![Some(ber::encode(&Tlv::seq(v)))]);
        }
    }

    // ------------------------------------------------------------------ response values (all length forms)
    for size in [0i64, 1, 127, 128, 65535, i32::MAX as i64] {
        for c in &ck {
            let t = Tlv::seq(vec![Tlv::int(size), Tlv::octets(c.clone())]);
            for b in all_forms(&t) {
                let b2 = b.clone();
                cx.eq("PagedResults::parse", "response:PagedResults", catch(move || { let p: controls::PagedResults = RawControl { ctype: "x".into(), crit: false, val: Some(b2) }.parse(); (p.size as i64, p.cookie) }), (size, c.clone()), &b);
            }
        }
    }
    let uuid: Vec<u8> = (1..=16u8).collect();
    for st in 0..4i64 {
        for cookie in [None, Some(vec![]), Some(vec![9u8; 130])] {
            let mut v = vec![Tlv::enumerated(st), Tlv::octets(uuid.clone())];
            if let Some(c) = &cookie {
                v.push(Tlv::octets(c.clone()));
            }
            for b in all_forms(&Tlv::seq(v.clone())) {
                let b2 = b.clone();
                cx.eq(
                    "SyncState::parse",
                    "response:SyncState",
                    catch(move || { let s: SyncState = RawControl { ctype: "x".into(), crit: false, val: Some(b2) }.parse(); (format!("{:?}", s.state), s.entry_uuid, s.cookie) }),
                    (["Present", "Add", "Modify", "Delete"][st as usize].to_string(), uuid.clone(), cookie.clone()),
                    &b,
                );
            }
        }
    }
    for cookie in [None, Some(vec![]), Some(vec![1u8, 2, 3])] {
        for rd in [None, Some(false), Some(true)] {
            let mut v = vec![];
            if let Some(c) = &cookie {
                v.push(Tlv::octets(c.clone()));
            }
            if let Some(b) = rd {
                v.push(Tlv::boolean(b));
            }
            for b in all_forms(&Tlv::seq(v.clone())) {
                let b2 = b.clone();
                cx.eq(
                    "SyncDone::parse",
                    "response:SyncDone",
                    catch(move || { let s: SyncDone = RawControl { ctype: "x".into(), crit: false, val: Some(b2) }.parse(); (s.cookie, s.refresh_deletes) }),
                    (cookie.clone(), rd.unwrap_or(false)),
                    &b,
                );
            }
        }
    }
    // SyncInfo: 4 choices x optional fields x 0-2 UUIDs, carried in an IntermediateResponse
    let u1: Vec<u8> = vec![0xaa; 16];
    let u2: Vec<u8> = vec![0xbb; 16];
    for choice in 0..4u32 {
        let cookie_opts: Vec<Option<Vec<u8>>> = if choice == 0 { vec![Some(vec![]), Some(vec![5u8; 3]), Some(vec![6u8; 200])] } else { vec![None, Some(vec![]), Some(vec![5u8; 3])] };
        for cookie in &cookie_opts {
            let flags: Vec<Option<bool>> = if choice == 0 { vec![None] } else { vec![None, Some(false), Some(true)] };
            for flag in &flags {
                let mut uuid_sets: Vec<Vec<Vec<u8>>> = if choice == 3 { vec![vec![], vec![u1.clone()], vec![u1.clone(), u2.clone()]] } else { vec![vec![]] };
                if choice == 3 && cookie.is_none() && flag.is_none() {
                    // many UUIDs (an id set of a large refresh)
                    for n in [5usize, 9, 17, 33, 57, 58, 59, 60, 61, 62, 63, 64, 65, 100, 129, 257, 1000] {
                        uuid_sets.push((0..n).map(|k| { let mut u = vec![0x11u8; 16]; u[0] = (k >> 8) as u8; u[1] = k as u8; u }).collect());
                    }
                }
                for uuids in &uuid_sets {
                    let val = if choice == 0 {
                        Tlv::prim(CTX, 0, cookie.clone().unwrap())
                    } else {
                        let mut v = vec![];
                        if let Some(c) = cookie {
                            v.push(Tlv::octets(c.clone()));
                        }
                        if let Some(f) = flag {
                            v.push(Tlv::boolean(*f));
                        }
                        if choice == 3 {
                            v.push(Tlv::set(uuids.iter().map(|u| Tlv::octets(u.clone())).collect()));
                        }
                        Tlv::cons(CTX, choice, v)
                    };
                    for vb in all_forms(&val) {
                        let im = Tlv::cons(APP, 25, vec![Tlv::prim(CTX, 0, b"1.3.6.1.4.1.4203.1.9.1.4".to_vec()), Tlv::prim(CTX, 1, vb.clone())]);
                        let want = match choice {
                            0 => format!("NewCookie({:?})", cookie.clone().unwrap()),
                            1 => format!("RefreshDelete {{ cookie: {:?}, refresh_done: {:?} }}", cookie, flag.unwrap_or(true)),
                            2 => format!("RefreshPresent {{ cookie: {:?}, refresh_done: {:?} }}", cookie, flag.unwrap_or(true)),
                            _ => {
                                let mut us = uuids.clone();
                                us.sort();
                                format!("SyncIdSet {{ cookie: {:?}, refresh_deletes: {:?}, uuids: {:?} }}", cookie, flag.unwrap_or(false), us)
                            }
                        };
                        let im2 = im.clone();
                        cx.eq(
                            "parse_syncinfo",
                            &format!("response:SyncInfo:choice{}", choice),
                            catch(move || match controls::parse_syncinfo(ResultEntry::new(ber::to_lber(&im2))) {
                                SyncInfo::NewCookie(c) => format!("NewCookie({:?})", c),
                                SyncInfo::RefreshDelete { cookie, refresh_done } => format!("RefreshDelete {{ cookie: {:?}, refresh_done: {:?} }}", cookie, refresh_done),
                                SyncInfo::RefreshPresent { cookie, refresh_done } => format!("RefreshPresent {{ cookie: {:?}, refresh_done: {:?} }}", cookie, refresh_done),
                                SyncInfo::SyncIdSet { cookie, refresh_deletes, sync_uuids } => {
                                    let mut us: Vec<Vec<u8>> = sync_uuids.into_iter().collect();
                                    us.sort();
                                    format!("SyncIdSet {{ cookie: {:?}, refresh_deletes: {:?}, uuids: {:?} }}", cookie, refresh_deletes, us)
                                }
                            }),
                            want,
                            &ber::encode(&im),
                        );
                    }
                }
            }
        }
    }
    // ... with many attributes and many values
    for n in [5usize, 9, 17, 33, 57, 58, 59, 60, 61, 62, 65, 100, 129, 300] {
        let attrs: Vec<Tlv> = (0..n).map(|k| Tlv::seq(vec![Tlv::octets(format!("a{}", k).into_bytes()), Tlv::set(vec![Tlv::octets(format!("v{}", k).into_bytes())])])).collect();
        let wide = Tlv::cons(APP, 4, vec![Tlv::octets(b"cn=wide".to_vec()), Tlv::seq(attrs)]);
        let vals: Vec<Tlv> = (0..n).map(|k| Tlv::octets(format!("m{}", k).into_bytes())).collect();
        let tall = Tlv::cons(APP, 4, vec![Tlv::octets(b"cn=tall".to_vec()), Tlv::seq(vec![Tlv::seq(vec![Tlv::octets(b"member".to_vec()), Tlv::set(vals)])])]);
        for (t, key, count) in [(wide, format!("a{}", n - 1), 1usize), (tall, "member".to_string(), n)] {
            let b = ber::encode(&t);
            let (b2, key2) = (b.clone(), key.clone());
            cx.eq(
                "PreReadResp::parse (many)",
                "response:ReadEntry",
                catch(move || {
                    let r: ldap3::controls::PreReadResp = RawControl { ctype: "x".into(), crit: false, val: Some(b2) }.parse();
                    (r.attrs.len(), r.attrs.get(&key2).map(|v| v.len()))
                }),
                (if count == 1 { n } else { 1 }, Some(count)),
                &b,
            );
        }
    }
    // Pre/PostRead response = SearchResultEntry
    for (vals, in_text) in [(vec![b"a".to_vec(), "é".as_bytes().to_vec()], true), (vec![vec![0xff], b"a".to_vec()], false), (vec![], true)] {
        let e = Tlv::cons(APP, 4, vec![Tlv::octets(b"cn=x".to_vec()), Tlv::seq(vec![Tlv::seq(vec![Tlv::octets(b"cn".to_vec()), Tlv::set(vals.iter().map(|v| Tlv::octets(v.clone())).collect())])])]);
        for b in all_forms(&e) {
            let b2 = b.clone();
            let want: (Option<Vec<String>>, Option<Vec<Vec<u8>>>) = if in_text {
                (Some(vals.iter().map(|v| String::from_utf8(v.clone()).unwrap()).collect()), None)
            } else {
                let mut s = vals.clone();
                s.sort();
                (None, Some(s))
            };
            cx.eq(
                "PostReadResp::parse",
                "response:ReadEntry",
                catch(move || {
                    let r: PostReadResp = RawControl { ctype: "x".into(), crit: false, val: Some(b2) }.parse();
                    (r.attrs.get("cn").cloned(), r.bin_attrs.get("cn").cloned().map(|mut v| { v.sort(); v }))
                }),
                want,
                &b,
            );
        }
    }
    for id in ["", "dn:cn=x", "u:é"] {
        let b = id.as_bytes().to_vec();
        let (b1, b2) = (b.clone(), b.clone());
        cx.eq("WhoAmIResp::parse", "response:WhoAmI", catch(move || Exop { name: None, val: Some(b1) }.parse::<WhoAmIResp>().authzid), id.to_string(), &b);
        cx.eq("StartTxnResp::parse", "response:StartTxn", catch(move || Exop { name: None, val: Some(b2) }.parse::<StartTxnResp>().txn_id), id.to_string(), &b);
    }
    for gp in ["", "gen-pä$$", &"g".repeat(200)] {
        let t = Tlv::seq(vec![Tlv::prim(CTX, 0, gp.as_bytes().to_vec())]);
        for b in all_forms(&t) {
            let b2 = b.clone();
            cx.eq("PasswordModifyResp::parse", "response:PasswordModify", catch(move || Exop { name: None, val: Some(b2) }.parse::<PasswordModifyResp>().gen_pass), gp.to_string(), &b);
        }
    }

    // ------------------------------------------------------------------ control lists through the envelope
    let mut singles: Vec<Ctl> = vec![];
    for oid in ["1.2.3", "2.16.840.1.113730.3.4.2"] {
        for crit in [None, Some(false), Some(true)] {
            for val in [None, Some(vec![]), Some(vec![0x04, 0x00])] {
                singles.push(Ctl { oid: oid.as_bytes().to_vec(), crit, val });
            }
        }
    }
    let mut lists: Vec<Vec<Ctl>> = vec![vec![]];
    for a in &singles {
        lists.push(vec![a.clone()]);
        for b in singles.iter().step_by(2) {
            lists.push(vec![a.clone(), b.clone()]);
            for c in singles.iter().step_by(tier.pick(7, 3)) {
                lists.push(vec![a.clone(), b.clone(), c.clone()]);
            }
        }
    }
    for l in &lists {
        // decode direction: server -> client
        let m = Msg { id: 5, op: Op::DelResp(Res::new(0, "", "")), controls: Some(l.clone()) };
        let bytes = m.encode();
        let want: Vec<(String, bool, Option<Vec<u8>>)> = l.iter().map(|c| (String::from_utf8(c.oid.clone()).unwrap(), c.crit.unwrap_or(false), c.val.clone())).collect();
        let b2 = bytes.clone();
        cx.eq(
            "envelope decode",
            "envelope:decode",
            catch(move || {
                let mut buf = BytesMut::from(&b2[..]);
                let (_, _, cs) = ldap3::verif::decode(&mut buf).expect("decode").expect("frame");
                cs.iter().map(|c| (c.1.ctype.clone(), c.1.crit, c.1.val.clone())).collect::<Vec<_>>()
            }),
            want,
            &bytes,
        );
        // encode direction: client -> server (criticality written only when TRUE)
        let raws: Vec<RawControl> = l.iter().map(|c| RawControl { ctype: String::from_utf8(c.oid.clone()).unwrap(), crit: c.crit.unwrap_or(false), val: c.val.clone() }).collect();
        let want_wire: Vec<Ctl> = l.iter().map(|c| Ctl { oid: c.oid.clone(), crit: if c.crit == Some(true) { Some(true) } else { None }, val: c.val.clone() }).collect();
        cx.eq(
            "envelope encode",
            "envelope:encode",
            catch(move || {
                let mut buf = BytesMut::new();
                ldap3::verif::encode(9, lber::structures::Tag::Null(lber::structures::Null { id: 2, class: lber::common::TagClass::Application, inner: () }), Some(raws), &mut buf).expect("encode");
                let t = ber::decode_all(&buf).expect("one element");
                Msg::from_tlv(&t, &mut vec![]).map(|m| m.controls)
            }),
            Ok(Some(want_wire)),
            &bytes,
        );
    }
    let _ = UNI;
    let total = cx.evals.load(Ordering::Relaxed);
    let c = cov(vec![
        ("evaluations", json!(total)),
        ("distinct_nontrivial", json!(total)),
        ("rule", json!("requests: PagedResults (140 sizes incl. the middle of every INTEGER width x 6 cookies, plus a cookie-length sweep across the length-form boundaries), SyncRequest (mode x cookie x reloadHint x critical), Pre/PostRead, Assertion and MatchedValues over the C08 item pool, ProxyAuth, TxnSpec, ManageDsaIT, RelaxRules, WhoAmI, StartTxn, PasswordModify (27 presence/value combinations), EndTxn: OID, criticality and value bytes compared with RFC-derived DER; responses: PagedResults, SyncState, SyncDone, SyncInfo (4 choices x optional fields x 0-2 UUIDs, id sets of up to 1000 UUIDs), ReadEntry (also with up to 300 attributes / values), WhoAmI, StartTxn, PasswordModify in every combination of length forms (small values) parsed and compared; control lists of 0-3 controls x criticality {absent, FALSE, TRUE} x value {absent, empty, bytes} through the message envelope in both directions. Every case is a distinct (value, encoding) pair")),
        ("control_lists", json!(lists.len())),
        ("samples", json!(["PagedResults {size 500, cookie 122B}", "SyncInfo refreshPresent without refreshDone", "PasswordModify None/Some(\"\")/Some(\"pä$$\")"])),
        ("exhaustive", json!(true)),
    ]);
    rep.finish("exploration", c, vec!["expected encodings are derived from RFC 2696/4533/4527/4528/3876/4370/5805/3296/4532/3062 with the independent DER encoder; EndTxnResp and an absent genPasswd are outside the property's list".into()])
}

pub fn replay(v: &serde_json::Value) -> i32 {
    println!("{}", serde_json::to_string_pretty(&v["replay"]).unwrap());
    println!("(C19 cases are identified by their name; re-run ./check C19 quick to reproduce)");
    0
}
