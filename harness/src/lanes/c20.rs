//! C20 — LDAP URL parameters are extracted as RFC 4516 defines them (bounded-exhaustive).

use crate::common::{catch, cov, par_for, Reporter, Tier};
use crate::vcore::url::{format_url, UrlParts};
use ldap3::{get_url_params, LdapError, LdapUrlExt, Scope};
use serde_json::json;
use std::sync::atomic::{AtomicU64, Ordering};
use url::Url;

#[derive(Clone, Debug)]
struct ExtSpec {
    crit: bool,
    name: &'static str,
    val: Option<&'static str>,
    /// what the library should make of it: Some(variant tag) or None = unknown
    known: Option<&'static str>,
}

fn ext_menu() -> Vec<ExtSpec> {
    vec![
        ExtSpec { crit: false, name: "bindname", val: Some("cn=x,dc=y"), known: Some("Bindname") },
        ExtSpec { crit: true, name: "bindname", val: Some("cn=Manager,o=a?b"), known: Some("Bindname") },
        ExtSpec { crit: false, name: "BindName", val: Some("cn=é"), known: Some("Bindname") },
        ExtSpec { crit: false, name: "x-bindpw", val: Some("s3cr%t=,"), known: Some("XBindpw") },
        ExtSpec { crit: true, name: "X-BINDPW", val: Some(""), known: Some("XBindpw") },
        ExtSpec { crit: false, name: "1.3.6.1.4.1.1466.20037", val: None, known: Some("StartTLS") },
        ExtSpec { crit: true, name: "1.3.6.1.4.1.1466.20037", val: None, known: Some("StartTLS") },
        ExtSpec { crit: false, name: "1.3.6.1.4.1.10094.1.5.2", val: Some("EXTERNAL"), known: Some("SaslMech") },
        ExtSpec { crit: false, name: "1.3.6.1.4.1.10094.1.5.1", val: Some("cred"), known: Some("Credentials") },
        ExtSpec { crit: false, name: "unknown", val: Some("v"), known: None },
        ExtSpec { crit: true, name: "unknown", val: Some("v"), known: None },
        ExtSpec { crit: false, name: "x-other", val: None, known: None },
        ExtSpec { crit: false, name: "bindname2", val: Some("v"), known: None },
        ExtSpec { crit: true, name: "bindname-alt", val: Some("v"), known: None },
        ExtSpec { crit: false, name: "x-bindpw-sha256", val: Some("v"), known: None },
        ExtSpec { crit: false, name: "bindnam", val: Some("v"), known: None },
        ExtSpec { crit: true, name: "1.3.6.1.4.1.1466.200370", val: None, known: None },
        // spellings of the experimental OIDs that are different OIDs (leading zero, sign)
        ExtSpec { crit: true, name: "1.3.6.1.4.1.10094.1.5.01", val: Some("x"), known: None },
        ExtSpec { crit: false, name: "1.3.6.1.4.1.10094.1.5.02", val: Some("PLAIN"), known: None },
        ExtSpec { crit: false, name: "1.3.6.1.4.1.10094.1.5.+1", val: Some("x"), known: None },
        ExtSpec { crit: true, name: "1.3.6.1.4.1.01466.20037", val: None, known: None },
    ]
}

fn ext_tag(e: &LdapUrlExt) -> (&'static str, String) {
    match e {
        LdapUrlExt::Bindname(v) => ("Bindname", v.to_string()),
        LdapUrlExt::XBindpw(v) => ("XBindpw", v.to_string()),
        LdapUrlExt::Credentials(v) => ("Credentials", v.to_string()),
        LdapUrlExt::SaslMech(v) => ("SaslMech", v.to_string()),
        LdapUrlExt::StartTLS => ("StartTLS", String::new()),
        LdapUrlExt::Unknown(v) => ("Unknown", v.to_string()),
    }
}

struct Case {
    parts: UrlParts,
    exts: Vec<ExtSpec>,
    keep_trailing: bool,
}

fn judge(rep: &Reporter, c: &Case, evals: &AtomicU64, nontrivial: &AtomicU64) {
    evals.fetch_add(1, Ordering::Relaxed);
    let url_s = format_url(&c.parts, c.keep_trailing);
    let replay = || json!({"engine":"c20","url":url_s});
    let url = match Url::parse(&url_s) {
        Ok(u) => u,
        Err(e) => panic!("verif-machinery: formatter produced an unparsable URL {:?}: {}", url_s, e),
    };
    let invalid_scope = c.parts.scope.as_deref().map_or(false, |s| !s.is_empty() && !["base", "one", "sub"].contains(&s));
    // first unknown critical extension (in list order) is an error — but only if nothing earlier fails
    let unknown_crit = c.exts.iter().any(|e| e.crit && e.known.is_none());
    if c.parts.attrs.is_some() || c.parts.scope.is_some() || c.parts.filter.is_some() || !c.exts.is_empty() {
        nontrivial.fetch_add(1, Ordering::Relaxed);
    }
    let r = catch(|| {
        get_url_params(&url).map(|p| {
            (
                p.base.to_string(),
                p.attrs.iter().map(|s| s.to_string()).collect::<Vec<_>>(),
                p.scope,
                p.filter.to_string(),
                p.extensions.iter().map(ext_tag).collect::<Vec<_>>(),
            )
        })
    });
    let r = match r {
        Ok(r) => r,
        Err(p) => {
            rep.violation("url:panic", &format!("get_url_params({:?}) panicked: {}", url_s, p), replay());
            return;
        }
    };
    match r {
        Err(e) => {
            let ok = match &e {
                LdapError::InvalidScopeString(s) => invalid_scope && Some(s.as_str()) == c.parts.scope.as_deref(),
                LdapError::UnrecognizedCriticalExtension(_) => unknown_crit && !invalid_scope,
                _ => false,
            };
            if !ok {
                rep.violation(
                    &format!("url:unexpected-error:{}", err_kind(&e)),
                    &format!("get_url_params({:?}) failed with {:?}; invalid scope: {}, unknown critical extension: {}", url_s, e.to_string(), invalid_scope, unknown_crit),
                    replay(),
                );
            }
        }
        Ok((base, attrs, scope, filter, exts)) => {
            if invalid_scope {
                rep.violation("url:invalid-scope-accepted", &format!("{:?}: scope {:?} was accepted as {:?}", url_s, c.parts.scope, scope), replay());
                return;
            }
            if unknown_crit {
                rep.violation("url:unknown-critical-extension-accepted", &format!("{:?}: an unknown critical extension was accepted", url_s), replay());
                return;
            }
            if base != c.parts.base {
                rep.violation("url:base", &format!("{:?}: base {:?} != {:?}", url_s, base, c.parts.base), replay());
            }
            let want_attrs: Vec<String> = match &c.parts.attrs {
                Some(a) if !a.is_empty() => a.clone(),
                _ => vec!["*".to_string()],
            };
            if attrs != want_attrs {
                rep.violation("url:attrs", &format!("{:?}: attrs {:?} != {:?}", url_s, attrs, want_attrs), replay());
            }
            let want_scope = match c.parts.scope.as_deref() {
                Some("base") => Scope::Base,
                Some("one") => Scope::OneLevel,
                _ => Scope::Subtree,
            };
            if scope != want_scope {
                rep.violation("url:scope", &format!("{:?}: scope {:?} != {:?}", url_s, scope, want_scope), replay());
            }
            let want_filter = match &c.parts.filter {
                Some(f) if !f.is_empty() => f.clone(),
                _ => "(objectClass=*)".to_string(),
            };
            if filter != want_filter {
                rep.violation("url:filter", &format!("{:?}: filter {:?} != {:?}", url_s, filter, want_filter), replay());
            }
            // recognised extensions: one per kind (first occurrence wins in a set keyed by kind)
            let mut want: Vec<(&'static str, String)> = vec![];
            for e in &c.exts {
                if let Some(k) = e.known {
                    if !want.iter().any(|w| w.0 == k) {
                        want.push((k, if k == "StartTLS" { String::new() } else { e.val.unwrap_or("").to_string() }));
                    }
                }
            }
            let mut got = exts.clone();
            got.sort();
            want.sort();
            if got != want {
                rep.violation("url:extensions", &format!("{:?}: extensions {:?} != {:?}", url_s, got, want), replay());
            }
        }
    }
}

fn err_kind(e: &LdapError) -> &'static str {
    match e {
        LdapError::DecodingUTF8 => "DecodingUTF8",
        LdapError::InvalidScopeString(_) => "InvalidScopeString",
        LdapError::UnrecognizedCriticalExtension(_) => "UnrecognizedCriticalExtension",
        _ => "other",
    }
}

pub fn run(tier: Tier) -> i32 {
    let rep = Reporter::new("C20", tier);
    // the bounds that used to be the thorough tier's are cheap enough for every run
    let deep = tier == Tier::Thorough;
    let tier = Tier::Thorough;
    let _ = deep;
    let evals = AtomicU64::new(0);
    let nontrivial = AtomicU64::new(0);
    let bases = ["", "dc=example,dc=com", "o=a?b", "cn=a b", "cn=é", "cn=a%b", "cn=a#b", "cn=100%25,o=x/y", "/c=US/o=Example", "//", " cn=sp "];
    let attrs: Vec<Option<Vec<String>>> = vec![None, Some(vec![]), Some(vec!["cn".into()]), Some(vec!["cn".into(), "sn".into()]), Some(vec!["*".into(), "+".into()])];
    let scopes: Vec<Option<&str>> = vec![None, Some(""), Some("base"), Some("one"), Some("sub"), Some("subtree"), Some("BASE")];
    let filters: Vec<Option<&str>> = vec![None, Some(""), Some("(cn=a)"), Some("(cn=a?b)"), Some("(cn=a,b)"), Some("(cn=%)"), Some("(cn=é)"), Some("(&(a=b)(c=#d))")];
    let menu = ext_menu();
    let mut ext_lists: Vec<Vec<ExtSpec>> = vec![vec![]];
    for a in &menu {
        ext_lists.push(vec![a.clone()]);
    }
    for a in &menu {
        for b in &menu {
            ext_lists.push(vec![a.clone(), b.clone()]);
        }
    }
    if tier == Tier::Thorough {
        for a in menu.iter().step_by(2) {
            for b in menu.iter().step_by(3) {
                for c in &menu {
                    ext_lists.push(vec![a.clone(), b.clone(), c.clone()]);
                }
            }
        }
    }
    let dims = [bases.len() as u64, attrs.len() as u64, scopes.len() as u64, filters.len() as u64, ext_lists.len() as u64, 2];
    let total: u64 = dims.iter().product();
    par_for(total, |mut i| {
        let mut ix = [0usize; 6];
        for (k, d) in dims.iter().enumerate() {
            ix[k] = (i % d) as usize;
            i /= d;
        }
        let exts = ext_lists[ix[4]].clone();
        let c = Case {
            parts: UrlParts {
                base: bases[ix[0]].to_string(),
                attrs: attrs[ix[1]].clone(),
                scope: scopes[ix[2]].map(|s| s.to_string()),
                filter: filters[ix[3]].map(|s| s.to_string()),
                exts: exts.iter().map(|e| (e.crit, e.name.to_string(), e.val.map(|v| v.to_string()))).collect(),
                raw_slash: ix[5] == 1 && ix[1] % 2 == 0,
            },
            exts,
            keep_trailing: ix[5] == 1,
        };
        judge(&rep, &c, &evals, &nontrivial);
    });
    // counts: attribute lists of n attributes (n up to 40 and a few larger), and extension lists
    // of up to 10 extensions in which one unknown extension (critical or not) sits at every position
    // among all five recognised ones
    {
        let counts: Vec<usize> = (3..=40).chain([63, 64, 65, 100, 255, 256, 257]).collect();
        for n in counts {
            let al: Vec<String> = (0..n).map(|k| if k % 7 == 6 { format!("2.5.4.{}", k) } else { format!("attr{};lang-x{}", k, k % 3) }).collect();
            for (bi, base) in ["", "dc=example,dc=com"].iter().enumerate() {
                let c = Case {
                    parts: UrlParts { base: base.to_string(), attrs: Some(al.clone()), scope: if bi == 0 { None } else { Some("one".into()) }, filter: if n % 2 == 0 { None } else { Some("(cn=a)".into()) }, exts: vec![], raw_slash: false },
                    exts: vec![],
                    keep_trailing: n % 2 == 0,
                };
                judge(&rep, &c, &evals, &nontrivial);
            }
        }
        let known_five: Vec<ExtSpec> = vec![menu[0].clone(), menu[3].clone(), menu[5].clone(), menu[7].clone(), menu[8].clone()];
        let odd: Vec<ExtSpec> = menu.iter().filter(|e| e.known.is_none()).cloned().collect();
        for o in &odd {
            for pos in 0..=known_five.len() {
                for dup in [false, true] {
                    let mut l = known_five.clone();
                    l.insert(pos, o.clone());
                    if dup {
                        // a second round of the recognised ones after it (first occurrence wins)
                        l.extend(known_five.iter().rev().cloned());
                    }
                    let c = Case {
                        parts: UrlParts { base: "dc=x".into(), attrs: None, scope: None, filter: None, exts: l.iter().map(|e| (e.crit, e.name.to_string(), e.val.map(|v| v.to_string()))).collect(), raw_slash: false },
                        exts: l,
                        keep_trailing: false,
                    };
                    judge(&rep, &c, &evals, &nontrivial);
                }
            }
        }
    }
    // percent-sequences that are not UTF-8 in each percent-decoded position
    let mut bad = 0u64;
    for u in [
        "ldap://h/cn=%ff",
        "ldap://h/dc=x??sub?(cn=%ff)",
        "ldap://h/dc=x????bindname=%ff",
        "ldap://h/dc=x????x-bindpw=%c3",
        "ldap://h/dc=x????unknown=%ff",
        "ldap://h/dc=x????1.3.6.1.4.1.10094.1.5.2=%80",
        // ... also behind all five recognised extensions, and in an attribute name
        "ldap://h/dc=x????bindname=a,x-bindpw=b,1.3.6.1.4.1.1466.20037,1.3.6.1.4.1.10094.1.5.1=c,1.3.6.1.4.1.10094.1.5.2=d,later=%ff",
        "ldap://h/dc=x????bindname=a,x-bindpw=b,1.3.6.1.4.1.1466.20037,1.3.6.1.4.1.10094.1.5.1=c,1.3.6.1.4.1.10094.1.5.2=d,unknown=v,bindname=%c3%28",
    ] {
        bad += 1;
        evals.fetch_add(1, Ordering::Relaxed);
        let url = Url::parse(u).unwrap();
        match catch(|| get_url_params(&url).map(|_| ())) {
            Ok(Err(LdapError::DecodingUTF8)) => {}
            Ok(other) => {
                rep.violation("url:non-utf8-percent-sequence", &format!("{:?}: expected DecodingUTF8, got {:?}", u, other.map_err(|e| e.to_string())), json!({"engine":"c20","url":u}));
            }
            Err(p) => {
                rep.violation("url:panic", &format!("{:?} panicked: {}", u, p), json!({"engine":"c20","url":u}));
            }
        }
    }
    let c = cov(vec![
        ("evaluations", json!(evals.load(Ordering::Relaxed))),
        ("distinct_nontrivial", json!(nontrivial.load(Ordering::Relaxed))),
        ("rule", json!("full product of base DNs x attribute lists x scope words x filters x extension lists (length <= 2, thorough: a subset of length 3) x {trailing '?' kept, dropped}, formatted by the independent RFC 4516 formatter with percent-encoding; distinct by construction; non-trivial = at least one optional component present")),
        ("product_size", json!(total)),
        ("non_utf8_cases", json!(bad)),
        ("samples", json!([format_url(&UrlParts { base: "o=a?b".into(), attrs: Some(vec!["cn".into()]), scope: Some("one".into()), filter: Some("(cn=a?b)".into()), exts: vec![(true, "bindname".into(), Some("cn=x,dc=y".into()))], raw_slash: false }, false)])),
        ("exhaustive", json!(true)),
    ]);
    rep.finish("exploration", c, vec!["the RFC 4516 formatter of vcore is correct; the url crate parses what it formats".into()])
}

pub fn replay(v: &serde_json::Value) -> i32 {
    let u = v["replay"]["url"].as_str().unwrap_or("");
    println!("url: {}", u);
    if let Ok(url) = Url::parse(u) {
        println!("{:?}", catch(|| get_url_params(&url).map(|p| format!("{:?}", p)).map_err(|e| e.to_string())));
    }
    0
}
