#!/bin/bash
# scripts/try_seed.sh <patch.diff> <Cxx> [<Cxx>...] : apply a seeded change to /repo, run quick checks, revert.
P="$1"; shift
cd /verif
git -C /repo apply "$P" || { echo "patch does not apply"; exit 2; }
for id in "$@"; do
  timeout 600 ./check "$id" quick > /tmp/try_seed.$$.out 2>&1; rc=$?
  echo "== $id rc=$rc"; grep -E "^(VIOLATION|KNOWN-FINDING|  key=|verif-machinery)" /tmp/try_seed.$$.out | head -8
done
rm -f /tmp/try_seed.$$.out
git -C /repo checkout -- . 
