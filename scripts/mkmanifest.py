#!/usr/bin/env python3
"""Regenerate MANIFEST.json from the table below (single source of truth for the interface)."""
import json, subprocess
HOOK_COMMITS = subprocess.run(["git","-C","/repo","log","--format=%h %s"],capture_output=True,text=True).stdout.splitlines()
hook_commits = [l.split()[0] for l in HOOK_COMMITS if l.split(' ',1)[1].startswith("verif hooks")]

E1_NOTE = "trusted: rustc, stateright 0.31, tokio (channels, timer, Framed) incl. the 14-line select! RNG hook patch, the in-memory transport and scripted server of the harness; bounds are the listed scenarios"
BE_NOTE = "trusted: rustc, the independent vcore reference (BER/LDAP/filter/DN/URL codecs written from the RFCs); exhaustive only within the stated alphabet and size bounds"

CHECKS = {
 "C01": ("model_checking", "E1", "explicit-state model checking (stateright) of the real driver/handles over an in-memory transport: all orders of client polls, driver polls (every select! start branch), server responses, byte releases and unsolicited PDUs in the listed scenarios; oracle: every value handed to a caller carries its own marker and wire ID, in server order; bogus PDUs are seen by nobody", "3 C01", E1_NOTE),
 "C13": ("model_checking", "E1", "explicit-state model checking (stateright) of operation histories (13 step kinds: single ok/error, timeout, abandons, direct/adapted/paged searches read fully or finished early, unsolicited responses; sequences, repeats and concurrent pairs); oracle at every quiescent state: ID table and both routing maps are empty", "3 C13", E1_NOTE),
}
NA = {}
import os
props=[json.loads(l) for l in open('/verif/properties.jsonl')]
manifest = {
 "version": 1,
 "setup_cmd": "scripts/setup.sh",
 "hooks": {
   "guard": "ldap3_verif",
   "enable": "RUSTFLAGS=--cfg ldap3_verif (set in /verif/harness/.cargo/config.toml; ldap3 and lber are path dependencies on /repo)",
   "baseline_off_cmd": "cd /repo && cargo test --workspace --no-fail-fast --offline",
   "source_commits": hook_commits,
   "add_only": True,
 },
 "engines": [
   {"name":"E1","path":"harness/src/e1","serves_properties":[k for k,v in CHECKS.items() if v[1]=="E1"],"kind_free_text":"explicit-state model checking with stateright; states are the real ldap3 connection re-executed from scratch under a checker-owned scheduler, clock, transport, fault injector and select! random source"},
   {"name":"E2","path":"harness/src/e2","serves_properties":[k for k,v in CHECKS.items() if "E2" in v[1]],"kind_free_text":"loom exploration of OS-thread interleavings around the message-ID table (shadow mutex)"},
   {"name":"E3","path":"harness/src/lanes","serves_properties":[k for k,v in CHECKS.items() if v[1]=="E3"],"kind_free_text":"bounded-exhaustive enumeration of inputs / operation sequences against independent reference models (vcore)"},
   {"name":"E4","path":"harness/src/e4","serves_properties":[k for k,v in CHECKS.items() if v[1]=="E4"],"kind_free_text":"exhaustive enumeration of configuration x scripted server behaviour over loopback sockets"},
 ],
 "checks": [],
 "notes": "See DESIGN.md. ./check <id> quick|thorough rebuilds the harness against /repo's working tree (cargo, offline) and runs the lane; exit 2 = machinery failure. Known findings: known-findings.jsonl.",
 "not_applicable": [],
}
for p in props:
    i=p["id"]
    if i in CHECKS:
        level, engine, text, ref, note = CHECKS[i]
        manifest["checks"].append({
          "property_id": i,
          "quick_cmd": f"./check {i} quick",
          "thorough_cmd": f"./check {i} thorough",
          "evidence_file": f"/verif/evidence/{i}.json",
          "replay_cmd_template": f"./check {i} --replay {{path}}",
          "engine": engine,
          "level_claimed": {"category": level, "text": text, "design_ref": ref},
          "level_note": note,
          "technique": "model checking: " + ("explicit-state search over the re-executed implementation (stateright)" if engine.startswith("E1") else "bounded-exhaustive enumeration against a reference model"),
        })
    else:
        manifest["not_applicable"].append({"property_id": i, "reason": NA.get(i, "check not built yet in this round (planned in DESIGN.md section 6); not claimed until it exists")})
json.dump(manifest, open('/verif/MANIFEST.json','w'), indent=1)
print("checks:", [c["property_id"] for c in manifest["checks"]])
