#!/usr/bin/env python3
"""Regenerate MANIFEST.json from the table below (single source of truth for the interface)."""
import json, subprocess
HOOK_COMMITS = subprocess.run(["git","-C","/repo","log","--format=%h %s"],capture_output=True,text=True).stdout.splitlines()
hook_commits = [l.split()[0] for l in HOOK_COMMITS if l.split(' ',1)[1].startswith("verif hooks")]

E1_NOTE = "trusted: rustc, stateright 0.31, tokio (channels, timer, Framed) incl. the 14-line select! RNG hook patch, the in-memory transport and scripted server of the harness; bounds are the listed scenarios"
BE_NOTE = "trusted: rustc, the independent vcore reference (BER/LDAP/filter/DN/URL codecs written from the RFCs); exhaustive only within the stated alphabet and size bounds"

CHECKS = {
 "C01": ("model_checking", "E1", "explicit-state model checking (stateright) of the real driver/handles over an in-memory transport: all orders of client polls, driver polls (every select! start branch), server responses, byte releases (also of responses beyond 127 octets) and unsolicited PDUs in the listed scenarios, incl. an Abandon of a pending operation from another handle, a stream dropped unfinished, operations issued through an open stream's own handle and 7-octet intermediate items; oracle: a caller whose frame has arrived completely is woken by the driver's next poll, every value handed to a caller carries its own marker and wire ID, in server order; bogus PDUs are seen by nobody", "3 C01", E1_NOTE),
 "C13": ("model_checking", "E1", "explicit-state model checking (stateright) of operation histories (20 step kinds: single ok/error, timeout, abandons, direct/adapted/paged searches in both adapter orders read fully or finished early, timed-out search() and streams, a failing user-defined adapter, an IntermediateResponse for a pending single operation, operations through an open stream's own handle, unsolicited responses; sequences, repeats and concurrent pairs; timeouts that fire while the request write is stalled); oracle at every quiescent state: ID table and both routing maps are empty", "3 C13", E1_NOTE),
}
CHECKS.update({
 "C04": ("model_checking", "E1", "explicit-state model checking (stateright) with a fault budget of one placed at every reachable state: EOF, reset, garbage frame with and without the peer closing (frame and byte level), a notice of disconnection, write error / partial write at every byte of a request / pending write, unbind by another handle, dropping every handle; oracle at terminal states: no client future pending, driver returned when the connection is over, transport shut down or dropped after unbind/last drop, delivered responses and items still returned, search() never returns a partial result, later calls (also Unbind) fail at once; plus unbind / last drop over real TCP, Unix and TLS sockets (the server must see end-of-stream)", "3 C04", E1_NOTE + "; fairness: the server closes its side after an UnbindRequest"),
 "C05": ("model_checking", "E1+E2", "explicit-state model checking (stateright) of the real allocator: every allocation from 7x2^7 preset (counter, in-use) states around the 2^31-1 wrap-around window and at every ID-codec boundary is compared with the reference cyclic successor; wire IDs decoded by the independent decoder must be in range and distinct among outstanding operations in all interleavings of starts, completions, timeouts and abandons; plus loom exploration (shadow mutex, preemption bound 3 quick / unbounded thorough) of OS-thread interleavings of allocations with each other and with the driver releasing an ID, incl. at the wrap-around", "3 C05", E1_NOTE + "; loom 0.7.2; tokio channels are atomic between loom switch points"),
 "C10": ("model_checking", "E1", "explicit-state model checking (stateright): a stream client with a free call plan (any sequence of next/finish) against every server item sequence up to the bound (entries, references, intermediates, with per-item controls) x result codes x direct/EntriesOnly/search(), paged chains in both adapter orders with a reference on every page and a second result control, repeated and non-ASCII URIs, a failing stream and a failing search(), a user-defined adapter that probes the stream after a failed call up the chain; a reference state machine predicts every return value and state()", "3 C10", E1_NOTE),
 "C12": ("model_checking", "E1", "explicit-state model checking (stateright) with a virtual clock: timed single ops, timed+untimed mixes, timed streams (also with search options carrying a time limit, and through PagedResults against a silent server) and search(), Duration::MAX, Abandon after a timeout; Tick interleaved with server answers and polls in every order; oracle: no timeout before the deadline, no pending un-woken call at/after it, a routed response wins, late replies are seen by nobody, later operations complete, nothing stays reserved", "3 C12", E1_NOTE),
 "C16": ("model_checking", "E1", "explicit-state model checking (stateright) of the PagedResults adapter against a paging server model: result-set sizes 0..5 x page sizes 1..3 x 4 cookie styles x accompanying controls/options/timeout x [Paged] / [EntriesOnly, Paged], the pager outermost with references on every page, page sizes at the INTEGER encoding boundaries and above the options' size limit, a caller-supplied paging control at four positions, plus free call plans; oracle on every request the server receives (one paging control, size, cookie echo, unchanged base/scope/filter/attrs/options/other controls, nothing after the empty cookie) and on every value the client gets", "3 C16", E1_NOTE),
})
CHECKS.update({
 "C07": ("exploration", "E3", "bounded-exhaustive enumeration: every tag tree of depth<=2/width<=2 over 4 classes x 8 tag numbers x 5 payloads (plus depth 3 over a reduced alphabet) encoded by lber, compared byte-for-byte with the independent minimal encoder and parsed back with trailers; every payload size across the 1/2/3/4-octet length boundaries; INTEGER/ENUMERATED for every i64 in a dense range and around every power of two; every combination of non-minimal length forms per node parsed and compared with the independent decoder; wide/deep shapes to 300 children and depth 64; typed wrappers incl. SequenceOf/SetOf with repeated children; one Parser instance across split and following elements", "6 C07", BE_NOTE),
 "C08": ("exploration", "E3", "bounded-exhaustive enumeration: (a) every item AST over attribute/rule/value alphabets rendered with every per-byte escaping choice, with and without parentheses, plus composites; (b) every byte string over a 16-symbol filter alphabet up to length 6 (7 thorough) and a 24-symbol one up to 5 (6 thorough); (c) 51 templates with a hole at every kind of grammar position x all 256 bytes and 7 two-hole templates x all 65536 byte pairs; three-part oracle: grammar strings compile to the reference AST, accepted strings print back to the input, must-reject classes are rejected, nothing panics", "6 C08", BE_NOTE),
 "C09": ("exploration", "E3", "bounded-exhaustive enumeration: every string of length <=2 over all ASCII and every string up to length 4 (5 thorough) over the 22 filter/DN metacharacters and multi-byte characters; ldap_escape embedded in seven filter shapes (also as bare items, where the value ends the string) and in substring positions compiles to the unchanged structure with the value byte-for-byte, unescape round-trips, dn_escape embedded at four DN positions is read back by an independent RFC 4514 parser, clean input is returned borrowed", "6 C09", BE_NOTE),
 "C15": ("exploration", "E3", "bounded-exhaustive enumeration: every entry with 0-2 (subset: 3) attributes whose value lists are all sequences of length 0..3 over valid/invalid UTF-8 values, built by the independent encoder (4 length forms), parsed by lber, through SearchEntry::construct; attribute descriptions with options/OID/upper case; values of 127..70001 octets; multi-octet characters (whole and cut) at every offset 0..70; oracle: DN, exactly-one-map, text iff all UTF-8 (in order), binary multiset otherwise", "6 C15", BE_NOTE),
 "C20": ("exploration", "E3", "bounded-exhaustive enumeration: full product of base DNs x attribute lists x scope words x filters x extension lists x trailing-? choice, formatted by the independent RFC 4516 formatter; oracle: components and defaults, the three error classes, unknown non-critical extensions ignored", "6 C20", BE_NOTE),
})
CHECKS.update({
 "C03": ("exploration", "E3", "bounded-exhaustive enumeration: every response type x every result code 0..122/4096/2^31-1, and every type x matched x text x referral x control list, encoded by the independent encoder minimally and with every length field in the forms 81/82/83/84 (one at a time, all at once, and every combination for small messages), decoded by the crate's codec and result converter and compared field by field; success/non_error/equal helpers for every rc 0..255; every operation kind additionally through a pending real operation over the in-memory transport (binary ExtendedResponse values and SASL credentials, two result controls, result codes that do not fit 32 bits or have no content, responses beyond 127 octets delivered byte by byte)", "6 C03", BE_NOTE),
 "C06": ("model_checking", "E3+E1", "exhaustive enumeration of read partitions: one real codec instance per stream fed every partition of short streams (all 2^(L-1) for L<=18, 23 thorough), every partition into <=3 chunks of longer ones, byte-at-a-time, cuts around every message and read-buffer boundary incl. 7-, 11-, 9000- and 70000-octet messages and an unsolicited notification; plus explicit-state search (stateright) over byte-level delivery through the real Framed and driver; oracle: exactly the messages wholly received are surfaced, in order, and exactly their bytes are consumed", "6 C06", BE_NOTE + "; " + E1_NOTE),
})
CHECKS.update({
 "C02": ("exploration", "E3", "bounded-exhaustive enumeration: every request of per-operation argument products (all 11 operations) with control lists and message-ID positions (incl. the typed extended requests Password Modify and Who Am I), a length sweep across every length-form boundary at every nesting level, written by the real handle and driver to the in-memory transport, decoded by the independent RFC 4511 decoder and compared with a model built from the arguments (one element, exact PDU, canonical minimal encoding); every history of length <=2 (3 thorough) over 9 operation kinds x 8 modifier subsets against a reactive server on a virtual clock: a modifier affects exactly the next operation invoked; follow-up requests generated by PagedResults are compared with the first request", "6 C02", BE_NOTE),
})
CHECKS.update({
 "C11": ("exploration", "E3", "bounded-exhaustive enumeration of hostile input: every byte string up to length 5 (6 thorough) over 24 BER-relevant octets and envelope-shaped prefixes with every tail through the real frame decoder; every single-field mutation (lengths incl. 2^32, 2^63-1, 2^64-1; identifier rewrites; the message ID rewritten to non-IDs) of every node of 19 valid responses through the decoder and through the real driver with a single operation and with a search pending on that message ID, and of unsolicited / unused-ID frames with operations pending on another ID; frame pairs in one read; nesting depths up to 250000 under universal, context, application, private and mixed identifiers in a child process on a 2 MiB stack; oracle: no panic, no stack overflow, a frame whose announced bytes have all arrived is delivered or rejected, a driver error is observed by every pending operation, a frame with a foreign ID is handed to nobody", "6 C11", BE_NOTE + "; " + E1_NOTE),
})
CHECKS.update({
 "C19": ("exploration", "E3", "bounded-exhaustive enumeration: every listed request control / extended request over its field alphabets (sizes, cookies incl. a length sweep across the BER length-form boundaries, optional fields, attribute lists, the C08 filter pool) compared with RFC-derived OID, criticality and DER value; every listed response value in every combination of length forms parsed and compared with what was encoded; control lists of 0-3 controls x criticality x value through the message envelope in both directions", "6 C19", BE_NOTE),
})
CHECKS.update({
 "C14": ("exploration", "E3", "bounded-exhaustive enumeration of operation sequences: every sequence of length 1-2 (3 with plain followers; thorough: all plain pairs) over 20 LdapConn/EntryStream methods (incl. searches with an unparsable filter) x modifier subsets (controls, empty control list, timeout, search options incl. negative limits) x server behaviours {success, rc 32, silence with timeout, disconnect}, executed through Ldap and through LdapConn on identical paused-clock runtimes over a reactive in-memory server; decoded wire transcripts, every return value, stream item and virtual duration must be identical; every method additionally once through the public constructor over a real Unix socket pair against a server thread", "6 C14", BE_NOTE + "; the in-memory lane builds LdapConn through the verif_from_parts hook"),
})
E4_NOTE = "trusted: the loopback test servers of the harness (plain threads; native-tls acceptor with a throw-away PKI generated by setup), OpenSSL honouring SSL_CERT_FILE, the OS loopback stack; default feature set (native-tls) only"
CHECKS.update({
 "C17": ("fault_enumeration", "E4", "exhaustive enumeration of configuration x server behaviour: {ldaps, StartTLS, both} x host form (also absent) x no_tls_verify (also set twice) x 4 certificates x 17 StartTLS answers (refusals with and without responseName, garbage, close, injected cleartext frames, wrong message ID, an unsolicited notification first, malformed / 2^32 result codes) x 3 handshake behaviours x cloned settings x caller-supplied connector, with and without a connection timeout, against a real TLS server on loopback that completes any handshake the client starts; oracle: the only cleartext message is one StartTLS request followed by TLS records, establishment succeeds iff the answer is success, the handshake completes and the certificate is trusted for the name or verification is off, and a bind after establishment is seen only inside TLS and gets the in-TLS answer", "6 C17", E4_NOTE),
 "C18": ("fault_enumeration", "E4", "exhaustive enumeration of URL x settings x API: schemes x host forms x ports x StartTLS x pre-opened stream kinds x timeouts (0, finite, Duration::MAX) x {LdapConnAsync, LdapConn} x entry point {with_settings, new, from_url, from_url_with_settings}, URLs with userinfo/path/query, ldapi path forms (also non-UTF-8 percent-escapes), unknown schemes, unparsable strings, silent peers and peers that hang up during TLS/StartTLS setup (also over a pre-opened stream), the first octets a TLS-less peer receives, against loopback listeners (127.0.0.1/::1 ports 389, 636, ephemeral; Unix sockets) that record who was contacted; a reference function predicts the contacted listener or the error class; nothing may panic or hang", "6 C18", E4_NOTE),
})
NA = {}
import os
props=[json.loads(l) for l in open('/verif/properties.jsonl')]
manifest = {
 "version": 1,
 "setup_cmd": "scripts/setup.sh",
 "hooks": {
   "guard": "ldap3_verif",
   "enable": "RUSTFLAGS=--cfg ldap3_verif (set in /verif/harness/.cargo/config.toml; ldap3 and lber are path dependencies on /repo)",
   "baseline_off_cmd": "cd /repo && cargo test --workspace --no-fail-fast --offline",
   "source_commits": hook_commits,
   "add_only": True,
 },
 "engines": [
   {"name":"E1","path":"harness/src/e1","serves_properties":[k for k,v in CHECKS.items() if v[1]=="E1"],"kind_free_text":"explicit-state model checking with stateright; states are the real ldap3 connection re-executed from scratch under a checker-owned scheduler, clock, transport, fault injector and select! random source"},
   {"name":"E2","path":"harness/src/e2","serves_properties":[k for k,v in CHECKS.items() if "E2" in v[1]],"kind_free_text":"loom exploration of OS-thread interleavings around the message-ID table (shadow mutex)"},
   {"name":"E3","path":"harness/src/lanes","serves_properties":[k for k,v in CHECKS.items() if v[1]=="E3"],"kind_free_text":"bounded-exhaustive enumeration of inputs / operation sequences against independent reference models (vcore)"},
   {"name":"E4","path":"harness/src/e4","serves_properties":[k for k,v in CHECKS.items() if v[1]=="E4"],"kind_free_text":"exhaustive enumeration of configuration x scripted server behaviour over loopback sockets"},
 ],
 "checks": [],
 "notes": "See DESIGN.md. ./check <id> quick|thorough rebuilds the harness against /repo's working tree (cargo, offline) and runs the lane; exit 2 = machinery failure. Known findings: known-findings.jsonl.",
 "not_applicable": [],
}
for p in props:
    i=p["id"]
    if i in CHECKS:
        level, engine, text, ref, note = CHECKS[i]
        manifest["checks"].append({
          "property_id": i,
          "quick_cmd": f"./check {i} quick",
          "thorough_cmd": f"./check {i} thorough",
          "evidence_file": f"/verif/evidence/{i}.json",
          "replay_cmd_template": f"./check {i} --replay {{path}}",
          "engine": engine,
          "level_claimed": {"category": level, "text": text, "design_ref": ref},
          "level_note": note,
          "technique": "model checking: " + ("explicit-state search over the re-executed implementation (stateright)" if engine.startswith("E1") else "bounded-exhaustive enumeration against a reference model"),
        })
    else:
        manifest["not_applicable"].append({"property_id": i, "reason": NA.get(i, "check not built yet in this round (planned in DESIGN.md section 6); not claimed until it exists")})
json.dump(manifest, open('/verif/MANIFEST.json','w'), indent=1)
print("checks:", [c["property_id"] for c in manifest["checks"]])
