#!/bin/bash
# scripts/run_seeds.sh [dir-prefix]: apply every seeded change in /verif/seeded to /repo in turn, run the
# quick check of its property, revert. Prints one line per seed; exit 1 if a seed is missed
# (seeds marked "neutralised" in meta.json are expected to pass).
cd /verif; miss=0
for d in seeded/${1:-}*/; do
  n=$(basename $d); id=${n%%-*}
  p=$d/patch.rebased.diff; [ -f $p ] || p=$d/patch.diff
  if ! git -C /repo apply /verif/$p 2>/dev/null; then echo "$n: PATCH DOES NOT APPLY"; miss=1; continue; fi
  timeout 900 ./check $id quick > /tmp/run_seeds.$$ 2>&1; rc=$?
  key=$(grep -a -m1 "^  key=" /tmp/run_seeds.$$ | sed 's/ :: .*//; s/^ *//')
  git -C /repo checkout -- .
  if [ $rc = 1 ]; then echo "$n: detected ($key)"; elif grep -q neutralised $d/meta.json; then echo "$n: not reported (neutralised by a fix, expected)"; else echo "$n: MISSED rc=$rc"; miss=1; fi
done
rm -f /tmp/run_seeds.$$; exit $miss
