#!/bin/bash
# scripts/run_benign_all.sh: every stored property-preserving change (benign/<Cxx>-b<k>/patch.diff, written by
# independent sub-agents for property Cxx) is applied to /repo in turn and the quick check of its property is run;
# every line must say "silent". scripts/run_benign_cross.sh runs the related checks of other properties as well.
cd /verif
for d in benign/*/; do id=$(basename $d); scripts/run_benign.sh /verif/benign/$id ${id%%-*}; done
