#!/bin/bash
# scripts/run_benign.sh <dir-with-patch.diff> <Cxx>...: apply a property-preserving change to /repo, run the
# quick checks named, revert. Any VIOLATION here is a candidate false alarm of the machinery.
D=$1; shift
cd /verif
git -C /repo apply $D/patch.diff 2>/dev/null || { echo "$(basename $(dirname $D))/$(basename $D): PATCH DOES NOT APPLY"; exit 2; }
for id in "$@"; do
  timeout 900 ./check $id quick > /tmp/run_benign.$$ 2>&1; rc=$?
  if [ $rc = 0 ]; then echo "$D $id: silent"; else echo "$D $id: ALARM rc=$rc $(grep -a -m2 '^  key=\|verif-machinery' /tmp/run_benign.$$ | cut -c1-300 | tr '\n' ' ')"; fi
done
rm -f /tmp/run_benign.$$
git -C /repo checkout -- .
