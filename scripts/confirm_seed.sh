#!/bin/bash
# scripts/confirm_seed.sh <id> <k>: confirm a sub-agent's seeded change in its scratch worktree:
# suite green with patch, demo fails with patch, demo passes without. Then store under /verif/seeded/.
ID=$1; K=$2
WT=/tmp/seed/$ID/wt; OUT=/tmp/seed/$ID/out/m$K
export CARGO_TARGET_DIR=/tmp/seed/$ID/target CARGO_NET_OFFLINE=true
cd $WT || exit 2
git checkout -q -- . ; rm -rf tests
[ -f Cargo.lock ] || cp /repo/Cargo.lock .
git apply $OUT/patch.diff || { echo "$ID m$K: PATCH DOES NOT APPLY"; exit 1; }
cargo test --workspace --no-fail-fast --offline > /tmp/seed/$ID/suite_m$K.log 2>&1; s=$?
mkdir -p tests; cp $OUT/demo.rs tests/demo.rs
timeout 600 cargo test --offline --test demo > /tmp/seed/$ID/demo_with_m$K.log 2>&1; dw=$?
git checkout -q -- src lber
timeout 600 cargo test --offline --test demo > /tmp/seed/$ID/demo_without_m$K.log 2>&1; dn=$?
rm -rf tests; git checkout -q -- .
echo "$ID m$K: suite_rc=$s demo_with_patch_rc=$dw demo_without_rc=$dn"
if [ $s = 0 ] && [ $dw != 0 ] && [ $dn = 0 ]; then
  D=/verif/seeded/$ID-m$K; mkdir -p $D
  cp $OUT/patch.diff $OUT/demo.rs $D/; cp $OUT/NOTES.md $D/NOTES.md 2>/dev/null
  echo "CONFIRMED $ID m$K"
else
  echo "REJECTED $ID m$K"
fi
