#!/bin/bash
# scripts/confirm_wave.sh <root> <tag> <id> <k>: confirm a sub-agent's change in ITS scratch worktree
# <root>/<id>/wt (never in /repo): existing suite green with the patch, demo fails with the patch, demo passes
# without it. A confirmed change is stored as /verif/seeded/<id>-<tag>m<k>/ {patch.diff, demo.rs, NOTES.md}.
ROOT=$1; TAG=$2; ID=$3; K=$4
WT=$ROOT/$ID/wt; OUT=$ROOT/$ID/out/m$K
export CARGO_TARGET_DIR=$ROOT/$ID/target CARGO_NET_OFFLINE=true
cd $WT || exit 2
git checkout -q -- . ; rm -rf tests
[ -f Cargo.lock ] || cp /repo/Cargo.lock .
[ -f $OUT/patch.diff ] && [ -f $OUT/demo.rs ] || { echo "$ID m$K: DELIVERABLES MISSING"; exit 1; }
git apply $OUT/patch.diff || { echo "$ID m$K: PATCH DOES NOT APPLY"; exit 1; }
cargo test --workspace --no-fail-fast --offline > $ROOT/$ID/suite_m$K.log 2>&1; s=$?
mkdir -p tests; cp $OUT/demo.rs tests/demo.rs
timeout 900 cargo test --offline --test demo > $ROOT/$ID/demo_with_m$K.log 2>&1; dw=$?
git checkout -q -- src lber
timeout 900 cargo test --offline --test demo > $ROOT/$ID/demo_without_m$K.log 2>&1; dn=$?
rm -rf tests; git checkout -q -- .
echo "$ID m$K: suite_rc=$s demo_with_patch_rc=$dw demo_without_rc=$dn"
if [ $s = 0 ] && [ $dw != 0 ] && [ $dn = 0 ]; then
  D=/verif/seeded/$ID-${TAG}m$K; mkdir -p $D
  cp $OUT/patch.diff $OUT/demo.rs $D/; cp $OUT/NOTES.md $D/NOTES.md 2>/dev/null
  echo "CONFIRMED $ID m$K -> $D"
else
  echo "REJECTED $ID m$K"
fi
