#!/bin/bash
# Generate the throw-away test PKI used by the TLS lanes (C17): a CA, a leaf for localhost
# signed by it, a leaf for another name signed by it, and a self-signed leaf.
set -euo pipefail
D="$1"; mkdir -p "$D"; cd "$D"
q() { "$@" >/dev/null 2>&1; }
q openssl req -x509 -newkey rsa:2048 -nodes -keyout ca.key -out ca.pem -days 3650 -subj "/CN=verif test CA" \
  -addext "basicConstraints=critical,CA:TRUE" -addext "keyUsage=critical,keyCertSign,cRLSign"
mkleaf() { # name cn san
  q openssl req -newkey rsa:2048 -nodes -keyout "$1.key" -out "$1.csr" -subj "/CN=$2"
  printf "subjectAltName=%s\nbasicConstraints=CA:FALSE\nkeyUsage=digitalSignature,keyEncipherment\nextendedKeyUsage=serverAuth\n" "$3" > "$1.ext"
  q openssl x509 -req -in "$1.csr" -CA ca.pem -CAkey ca.key -CAcreateserial -out "$1.pem" -days 3650 -extfile "$1.ext"
  q openssl pkcs12 -export -inkey "$1.key" -in "$1.pem" -out "$1.p12" -passout pass:verif
}
mkleaf good localhost "DNS:localhost,IP:127.0.0.1"
mkleaf wrongname other.invalid "DNS:other.invalid"
mkleaf dnsonly localhost "DNS:localhost"
q openssl req -x509 -newkey rsa:2048 -nodes -keyout selfsigned.key -out selfsigned.pem -days 3650 -subj "/CN=localhost" \
  -addext "subjectAltName=DNS:localhost,IP:127.0.0.1"
q openssl pkcs12 -export -inkey selfsigned.key -in selfsigned.pem -out selfsigned.p12 -passout pass:verif
echo "pki ok"
