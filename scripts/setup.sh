#!/bin/bash
# Build the verification framework from files on disk only (offline).
set -euo pipefail
cd "$(dirname "$0")/.."
export CARGO_NET_OFFLINE=true
mkdir -p build evidence replays
# 1. patched tokio (same version as /repo's Cargo.lock) with the select! RNG hook
TOKIO_VER=$(awk '/^name = "tokio"$/{getline; gsub(/[^0-9.]/,""); print; exit}' /repo/Cargo.lock)
SRC=$(ls -d ~/.cargo/registry/src/*/tokio-"$TOKIO_VER" | head -1)
if [ ! -f build/tokio/.verif-patched ] || [ "$(cat build/tokio/.verif-patched)" != "$TOKIO_VER" ]; then
  rm -rf build/tokio
  cp -r "$SRC" build/tokio
  rm -f build/tokio/.cargo-ok build/tokio/.cargo_vcs_info.json
  (cd build/tokio && patch -p1 -s < ../../vendor/tokio-rng-hook.patch)
  echo "$TOKIO_VER" > build/tokio/.verif-patched
fi
# 2. lock file seeded from the repository's
[ -f harness/Cargo.lock ] || cp /repo/Cargo.lock harness/Cargo.lock
# 3. test PKI for the TLS lanes
[ -f build/pki/dnsonly.p12 ] || { rm -rf build/pki; scripts/mkpki.sh build/pki; }
# 4. build
(cd harness && cargo build --release --offline 2>&1 | tail -3)
echo "setup ok"
